// Package simstorage drives the storage smart contract
// (0chain.net/smartcontract/storagesc) through the sim harness: it registers and
// stakes blobbers and validators with real transactions, builds every kind of
// storage transaction with valid (really signed) payloads, and reads the
// contract's state back into plain structs.
//
// Conventions
//   - Builders only BUILD a *transaction.Transaction for the next nonce of the
//     sender in the world's current history; run it with w.H.Do(txn) or w.Exec(txn).
//   - Views read the state of a block through a fresh, uncached trie handle
//     (sim.ViewOf), so they also see the transactions already executed in the
//     still open block.
//   - Nothing here uses math/rand or time.Now(); all keys come from sim.NewWallet.
//
// Facts of the contract (as shipped, no hard fork activated in the genesis state)
// that shape the API:
//   - an allocation always expires at creation time + time_unit (720h); an
//     update with extend=true (or size>0) resets it to now + time_unit;
//     there is no other way to choose an expiry;
//   - a negative size delta in update_allocation_request is refused;
//   - cancel_allocation and finalize_allocation DELETE the allocation node and its
//     challenge pool, so the Finalized/Canceled flags are never observable in state;
//   - blobbers must have a health check younger than health_check_period (90m)
//     to be eligible for a new allocation, validators one younger than 1h to be
//     picked for a challenge: see BlobberHealthCheck / ValidatorHealthCheck / KeepAlive.
package simstorage

import (
	"fmt"
	"sort"

	"0chain.net/chaincore/block"
	"0chain.net/chaincore/transaction"
	"0chain.net/smartcontract/stakepool/spenum"
	"github.com/0chain/common/core/currency"
	"verifharness/sim"
)

// ZCN is one token in the smallest unit.
const ZCN currency.Coin = 1e10

// GB as the contract defines it.
const GB int64 = 1024 * 1024 * 1024

// Provider is a blobber or a validator the library registered.
type Provider struct {
	Kind     spenum.Provider // spenum.Blobber or spenum.Validator
	Index    int
	Op       *sim.Wallet // operational wallet; its id is the provider id
	Delegate *sim.Wallet // delegate wallet named in the stake pool settings
	URL      string
}

// ID of the provider (id of the operational wallet).
func (p *Provider) ID() string { return p.Op.ID }

// Options of Setup; zero values mean the defaults listed at DefaultOptions.
type Options struct {
	Blobbers       int
	Validators     int
	Funder         *sim.Wallet   // pays every wallet Setup creates; default: the last genesis client
	Capacity       int64         // blobber capacity in bytes
	ReadPrice      currency.Coin // per GB
	WritePrice     currency.Coin // per GB per time unit
	BlobberStake   currency.Coin // locked by each blobber's delegate wallet
	ValidatorStake currency.Coin // locked by each validator's delegate wallet
	ServiceCharge  float64
	NumDelegates   int
	OpFunds        currency.Coin // balance given to every operational wallet
	DelegateSpare  currency.Coin // balance given to delegate wallets on top of their stake
	Fee            currency.Coin // fee of every transaction the library builds
	// StartRound is the round of the block that is open when Setup returns
	// (default 31). The contract cannot process a passed challenge of a blobber
	// during the first block-reward period (rounds < block_reward.trigger_period = 30):
	// a fresh blobber's RewardRound.StartRound is 0, which equals the reward round
	// of that period, so the contract looks the blobber up in a partition it was
	// never added to ("can't get blobber reward from partition list: item not
	// found"). Use a smaller value to reach that situation on purpose.
	StartRound int64
}

// DefaultOptions are: capacity 1000 GiB, read price 0.01, write price 0.1,
// blobber stake 500, validator stake 10, service charge 0.1, 10 delegates,
// 10 tokens per operational wallet, 100 spare tokens per delegate wallet, fee 0.
func DefaultOptions(nBlobbers, nValidators int) Options {
	return Options{
		Blobbers: nBlobbers, Validators: nValidators,
		Capacity: 1000 * GB, ReadPrice: ZCN / 100, WritePrice: ZCN / 10,
		BlobberStake: 500 * ZCN, ValidatorStake: 10 * ZCN,
		ServiceCharge: 0.1, NumDelegates: 10,
		OpFunds: 10 * ZCN, DelegateSpare: 100 * ZCN,
	}
}

func (o Options) withDefaults() Options {
	d := DefaultOptions(o.Blobbers, o.Validators)
	if o.Capacity == 0 {
		o.Capacity = d.Capacity
	}
	if o.WritePrice == 0 {
		o.WritePrice = d.WritePrice
	}
	if o.BlobberStake == 0 {
		o.BlobberStake = d.BlobberStake
	}
	if o.ValidatorStake == 0 {
		o.ValidatorStake = d.ValidatorStake
	}
	if o.NumDelegates == 0 {
		o.NumDelegates = d.NumDelegates
	}
	if o.OpFunds == 0 {
		o.OpFunds = d.OpFunds
	}
	if o.DelegateSpare == 0 {
		o.DelegateSpare = d.DelegateSpare
	}
	if o.StartRound == 0 {
		o.StartRound = 31
	}
	return o
}

// World is the set of identities of a storage scenario bound to one history.
type World struct {
	S          *sim.Sim
	H          *sim.History
	Opt        Options
	Blobbers   []*Provider
	Validators []*Provider
	Funder     *sim.Wallet
	Fee        currency.Coin
	// SetupBlock is the closed block that contains the whole setup; fork further
	// histories from it with w.Fork().
	SetupBlock *block.Block

	wallets map[string]*sim.Wallet
	seq     int64
}

// Setup registers nBlobbers blobbers and nValidators validators with the default options.
func Setup(h *sim.History, nBlobbers, nValidators int) (*World, error) {
	return SetupWith(h, DefaultOptions(nBlobbers, nValidators))
}

// SetupWith funds, registers (add_blobber / add_validator) and stakes
// (stake_pool_lock by the delegate wallet) the providers through real
// transactions, registers every wallet with h.Know and closes the block.
func SetupWith(h *sim.History, opt Options) (*World, error) {
	opt = opt.withDefaults()
	w := &World{S: h.S, H: h, Opt: opt, Fee: opt.Fee, wallets: map[string]*sim.Wallet{}}
	w.Funder = opt.Funder
	if w.Funder == nil {
		w.Funder = h.S.Clients[len(h.S.Clients)-1]
	}
	w.remember(h.S.Owner)
	for _, c := range h.S.Clients {
		w.remember(c)
	}
	for i := 0; i < opt.Blobbers; i++ {
		if _, err := w.AddBlobber(BlobberParams{}); err != nil {
			return nil, fmt.Errorf("blobber %d: %w", i, err)
		}
	}
	for i := 0; i < opt.Validators; i++ {
		if _, err := w.AddValidator(); err != nil {
			return nil, fmt.Errorf("validator %d: %w", i, err)
		}
	}
	skip := opt.StartRound - h.Round
	if skip < 1 {
		skip = 1
	}
	w.SetupBlock = h.NextBlock(skip, skip)
	return w, nil
}

func (w *World) remember(wl *sim.Wallet) { w.wallets[wl.ID] = wl }

// Wallet returns the wallet the library owns for an id (nil when unknown).
func (w *World) Wallet(id string) *sim.Wallet { return w.wallets[id] }

// NewClient creates (deterministically), funds and registers a fresh wallet.
func (w *World) NewClient(role string, i int, funds currency.Coin) (*sim.Wallet, error) {
	wl := sim.NewWallet(role, i)
	w.remember(wl)
	w.H.Know(wl.ID, wl.Name)
	if funds > 0 {
		if _, err := w.Exec(w.Send(w.Funder, wl.ID, funds)); err != nil {
			return nil, fmt.Errorf("funding %s: %w", wl.Name, err)
		}
	}
	return wl, nil
}

// On returns a copy of the world bound to another history (for example one
// forked from SetupBlock); providers and wallets are shared.
func (w *World) On(h *sim.History) *World {
	c := *w
	c.H = h
	return &c
}

// Fork starts a new history on the closed setup block and returns the world bound to it. Every wallet the world owns is
// registered with the new history, so balance snapshots cover providers and their delegate wallets too.
func (w *World) Fork() *World {
	f := w.On(w.S.NewHistory(w.SetupBlock))
	ids := make([]string, 0, len(w.wallets))
	for id := range w.wallets {
		ids = append(ids, id)
	}
	sort.Strings(ids)
	for _, id := range ids {
		f.H.Know(id, w.wallets[id].Name)
	}
	return f
}

// Exec runs a transaction in the current block and turns "rejected" and "failed"
// into an error carrying the contract's message.
func (w *World) Exec(txn *transaction.Transaction) (sim.Outcome, error) {
	o, err := w.H.Do(txn)
	if err != nil {
		return o, fmt.Errorf("monitor: %w", err)
	}
	switch {
	case o.Rejected:
		return o, fmt.Errorf("%s rejected: %v", txnName(txn), o.Err)
	case o.Failed:
		return o, fmt.Errorf("%s failed: %s", txnName(txn), o.Output)
	}
	return o, nil
}

func txnName(txn *transaction.Transaction) string {
	if txn.TransactionType == transaction.TxnTypeSmartContract {
		return txn.FunctionName
	}
	return fmt.Sprintf("txn type %d", txn.TransactionType)
}

// Send builds a plain token transfer.
func (w *World) Send(from *sim.Wallet, to string, amount currency.Coin) *transaction.Transaction {
	return w.H.Tx(from, to, amount, w.Fee, transaction.TxnTypeSend, "")
}

// Generator is the miner that generates the current block, as a wallet without
// a private key (built-in transactions are sent in its name).
func (w *World) Generator() *sim.Wallet {
	id := w.H.Cur.B.MinerID
	if wl, ok := w.wallets[id]; ok {
		return wl
	}
	wl := &sim.Wallet{Name: w.H.Label(id), ID: id}
	if n := w.S.MB.Miners.GetNode(id); n != nil {
		wl.PublicKey = n.PublicKey
	}
	w.wallets[id] = wl
	return wl
}

// BlobberParams of AddBlobber; zero values fall back to the world's options.
type BlobberParams struct {
	Capacity      int64
	ReadPrice     *currency.Coin
	WritePrice    currency.Coin
	Stake         *currency.Coin // nil: Options.BlobberStake; 0: do not stake
	ServiceCharge *float64
	NumDelegates  int
}

// AddBlobber creates the next blobber: funds both wallets, add_blobber, stake_pool_lock.
func (w *World) AddBlobber(p BlobberParams) (*Provider, error) {
	i := len(w.Blobbers)
	stake := w.Opt.BlobberStake
	if p.Stake != nil {
		stake = *p.Stake
	}
	pr, err := w.newProvider(spenum.Blobber, i, "blobber", stake)
	if err != nil {
		return nil, err
	}
	if _, err := w.Exec(w.AddBlobberTxn(pr, p)); err != nil {
		return nil, err
	}
	w.Blobbers = append(w.Blobbers, pr)
	if stake > 0 {
		if _, err := w.Exec(w.StakeLock(pr.Delegate, pr, stake)); err != nil {
			return nil, err
		}
	}
	return pr, nil
}

// AddValidator creates the next validator: funds both wallets, add_validator, stake_pool_lock.
func (w *World) AddValidator() (*Provider, error) {
	i := len(w.Validators)
	pr, err := w.newProvider(spenum.Validator, i, "validator", w.Opt.ValidatorStake)
	if err != nil {
		return nil, err
	}
	if _, err := w.Exec(w.AddValidatorTxn(pr)); err != nil {
		return nil, err
	}
	w.Validators = append(w.Validators, pr)
	if w.Opt.ValidatorStake > 0 {
		if _, err := w.Exec(w.StakeLock(pr.Delegate, pr, w.Opt.ValidatorStake)); err != nil {
			return nil, err
		}
	}
	return pr, nil
}

func (w *World) newProvider(kind spenum.Provider, i int, role string, stake currency.Coin) (*Provider, error) {
	op, err := w.NewClient(role, i, w.Opt.OpFunds)
	if err != nil {
		return nil, err
	}
	del, err := w.NewClient(role+"del", i, stake+w.Opt.DelegateSpare)
	if err != nil {
		return nil, err
	}
	return &Provider{Kind: kind, Index: i, Op: op, Delegate: del, URL: fmt.Sprintf("https://%s%d.verif.example", role, i)}, nil
}

// Blobber returns the registered blobber with the given id (nil when unknown).
func (w *World) Blobber(id string) *Provider {
	for _, b := range w.Blobbers {
		if b.ID() == id {
			return b
		}
	}
	return nil
}

// Validator returns the registered validator with the given id (nil when unknown).
func (w *World) Validator(id string) *Provider {
	for _, v := range w.Validators {
		if v.ID() == id {
			return v
		}
	}
	return nil
}

// BlobberIDs of the first n blobbers (all when n <= 0).
func (w *World) BlobberIDs(n int) []string {
	if n <= 0 || n > len(w.Blobbers) {
		n = len(w.Blobbers)
	}
	ids := make([]string, n)
	for i := 0; i < n; i++ {
		ids[i] = w.Blobbers[i].ID()
	}
	return ids
}

// KeepAlive executes a health check for every blobber and validator (needed
// after the clock moved by more than an hour and before a new allocation or a
// challenge generation).
func (w *World) KeepAlive() error {
	for _, b := range w.Blobbers {
		if _, ok, _ := w.View().Blobber(b.ID()); !ok {
			continue // removed from state (killed or shut down without data and stake)
		}
		if _, err := w.Exec(w.BlobberHealthCheck(b)); err != nil {
			return err
		}
	}
	for _, v := range w.Validators {
		if _, ok, _ := w.View().Validator(v.ID()); !ok {
			continue
		}
		if _, err := w.Exec(w.ValidatorHealthCheck(v)); err != nil {
			return err
		}
	}
	return nil
}
