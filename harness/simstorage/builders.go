package simstorage

import (
	"encoding/hex"
	"fmt"

	"0chain.net/chaincore/transaction"
	"0chain.net/core/common"
	"0chain.net/core/encryption"
	"0chain.net/smartcontract/dto"
	"0chain.net/smartcontract/stakepool/spenum"
	"github.com/0chain/common/core/currency"
	"verifharness/sim"
)

func (w *World) call(from *sim.Wallet, fn string, input interface{}, value currency.Coin) *transaction.Transaction {
	return w.H.Call(from, sim.StorageSC, fn, input, value, w.Fee)
}

// ---------------------------------------------------------------------------
// providers

type stakeSettingsJSON struct {
	DelegateWallet string  `json:"delegate_wallet"`
	NumDelegates   int     `json:"num_delegates"`
	ServiceCharge  float64 `json:"service_charge"`
}

type termsJSON struct {
	ReadPrice  currency.Coin `json:"read_price"`
	WritePrice currency.Coin `json:"write_price"`
}

// AddBlobberTxn builds add_blobber, sent by the operational wallet (the
// contract takes id and public key from the transaction; the delegate wallet
// must differ from the operational one).
func (w *World) AddBlobberTxn(pr *Provider, p BlobberParams) *transaction.Transaction {
	if p.Capacity == 0 {
		p.Capacity = w.Opt.Capacity
	}
	if p.WritePrice == 0 {
		p.WritePrice = w.Opt.WritePrice
	}
	read := w.Opt.ReadPrice
	if p.ReadPrice != nil {
		read = *p.ReadPrice
	}
	charge := w.Opt.ServiceCharge
	if p.ServiceCharge != nil {
		charge = *p.ServiceCharge
	}
	if p.NumDelegates == 0 {
		p.NumDelegates = w.Opt.NumDelegates
	}
	in := struct {
		ID       string            `json:"id"`
		URL      string            `json:"url"`
		Terms    termsJSON         `json:"terms"`
		Capacity int64             `json:"capacity"`
		Settings stakeSettingsJSON `json:"stake_pool_settings"`
	}{pr.ID(), pr.URL, termsJSON{read, p.WritePrice}, p.Capacity,
		stakeSettingsJSON{pr.Delegate.ID, p.NumDelegates, charge}}
	return w.call(pr.Op, "add_blobber", in, 0)
}

// AddValidatorTxn builds add_validator, sent by the operational wallet.
func (w *World) AddValidatorTxn(pr *Provider) *transaction.Transaction {
	in := struct {
		ID       string            `json:"id"`
		URL      string            `json:"url"`
		Settings stakeSettingsJSON `json:"stake_pool_settings"`
	}{pr.ID(), pr.URL, stakeSettingsJSON{pr.Delegate.ID, w.Opt.NumDelegates, w.Opt.ServiceCharge}}
	return w.call(pr.Op, "add_validator", in, 0)
}

// BlobberHealthCheck builds blobber_health_check (sent by the blobber).
func (w *World) BlobberHealthCheck(pr *Provider) *transaction.Transaction {
	return w.call(pr.Op, "blobber_health_check", nil, 0)
}

// ValidatorHealthCheck builds validator_health_check (sent by the validator).
func (w *World) ValidatorHealthCheck(pr *Provider) *transaction.Transaction {
	return w.call(pr.Op, "validator_health_check", nil, 0)
}

// BlobberUpdate are the deltas of update_blobber_settings; nil fields stay unchanged.
type BlobberUpdate struct {
	Capacity      *int64
	ReadPrice     *currency.Coin
	WritePrice    *currency.Coin
	ServiceCharge *float64
	NumDelegates  *int
	// DelegateWallet names another delegate wallet (id) for the blobber.
	DelegateWallet *string
	NotAvailable   *bool
	IsRestricted   *bool
	URL            *string
}

// UpdateBlobberSettings builds update_blobber_settings; the contract accepts it
// from the delegate wallet only (from == nil uses it).
func (w *World) UpdateBlobberSettings(from *sim.Wallet, pr *Provider, u BlobberUpdate) *transaction.Transaction {
	if from == nil {
		from = pr.Delegate
	}
	in := dto.StorageDtoNode{}
	in.ID = pr.ID()
	in.ProviderType = spenum.Blobber
	in.Capacity = u.Capacity
	in.NotAvailable = u.NotAvailable
	in.IsRestricted = u.IsRestricted
	in.BaseURL = u.URL
	if u.ReadPrice != nil || u.WritePrice != nil {
		in.Terms = &dto.Terms{ReadPrice: u.ReadPrice, WritePrice: u.WritePrice}
	}
	if u.ServiceCharge != nil || u.NumDelegates != nil || u.DelegateWallet != nil {
		in.StakePoolSettings = &dto.Settings{ServiceChargeRatio: u.ServiceCharge, MaxNumDelegates: u.NumDelegates, DelegateWallet: u.DelegateWallet}
	}
	return w.call(from, "update_blobber_settings", in, 0)
}

type providerRequest struct {
	ID string `json:"provider_id"`
}

// KillBlobber builds kill_blobber (accepted from the contract owner; from == nil uses s.Owner).
func (w *World) KillBlobber(from *sim.Wallet, pr *Provider) *transaction.Transaction {
	return w.call(w.orOwner(from), "kill_blobber", providerRequest{pr.ID()}, 0)
}

// KillValidator builds kill_validator (accepted from the contract owner).
func (w *World) KillValidator(from *sim.Wallet, pr *Provider) *transaction.Transaction {
	return w.call(w.orOwner(from), "kill_validator", providerRequest{pr.ID()}, 0)
}

// ShutdownBlobber builds shutdown_blobber (accepted from the delegate wallet or
// the contract owner; from == nil uses the delegate wallet).
func (w *World) ShutdownBlobber(from *sim.Wallet, pr *Provider) *transaction.Transaction {
	if from == nil {
		from = pr.Delegate
	}
	return w.call(from, "shutdown_blobber", providerRequest{pr.ID()}, 0)
}

// ShutdownValidator builds shutdown_validator (delegate wallet or contract owner).
func (w *World) ShutdownValidator(from *sim.Wallet, pr *Provider) *transaction.Transaction {
	if from == nil {
		from = pr.Delegate
	}
	return w.call(from, "shutdown_validator", providerRequest{pr.ID()}, 0)
}

func (w *World) orOwner(from *sim.Wallet) *sim.Wallet {
	if from == nil {
		return w.S.Owner
	}
	return from
}

// ---------------------------------------------------------------------------
// stake pools

type stakePoolRequest struct {
	ProviderType spenum.Provider `json:"provider_type"`
	ProviderID   string          `json:"provider_id"`
}

// StakeLock builds stake_pool_lock: `from` adds `amount` to its delegate pool of the provider.
func (w *World) StakeLock(from *sim.Wallet, pr *Provider, amount currency.Coin) *transaction.Transaction {
	return w.call(from, "stake_pool_lock", stakePoolRequest{pr.Kind, pr.ID()}, amount)
}

// StakeUnlock builds stake_pool_unlock: `from` withdraws its whole delegate pool.
func (w *World) StakeUnlock(from *sim.Wallet, pr *Provider) *transaction.Transaction {
	return w.call(from, "stake_pool_unlock", stakePoolRequest{pr.Kind, pr.ID()}, 0)
}

// CollectReward builds collect_reward: `from` collects the reward of its
// delegate pool (and, when it is the delegate wallet, the provider's service charge).
func (w *World) CollectReward(from *sim.Wallet, pr *Provider) *transaction.Transaction {
	in := struct {
		ProviderID   string          `json:"provider_id"`
		ProviderType spenum.Provider `json:"provider_type"`
	}{pr.ID(), pr.Kind}
	return w.call(from, "collect_reward", in, 0)
}

// ---------------------------------------------------------------------------
// allocations

type priceRangeJSON struct {
	Min currency.Coin `json:"min"`
	Max currency.Coin `json:"max"`
}

// AllocParams of a new_allocation_request. Zero values: 2 data + 1 parity
// shards, 1 GiB, the first data+parity blobbers of the world, price ranges
// [0, contract maximum 7 ZCN], Lock 10 ZCN.
type AllocParams struct {
	Owner        *sim.Wallet // sender; becomes the owner unless OwnerID is set
	DataShards   int
	ParityShards int
	Size         int64
	Blobbers     []string       // candidate blobber ids, the first data+parity eligible ones are taken
	ReadMax      *currency.Coin // read price range max (min is ReadMin)
	ReadMin      currency.Coin
	WriteMax     *currency.Coin
	WriteMin     currency.Coin
	Lock         *currency.Coin // transaction value = initial write pool
	// OwnerID/OwnerPublicKey name a different owner than the sender.
	OwnerID              string
	OwnerPublicKey       string
	ThirdPartyExtendable bool
	FileOptions          *uint16
	// AuthTickets: nil = a valid ticket of every known blobber (signature of the
	// owner id); otherwise used as given (must not be shorter than Blobbers).
	AuthTickets []string
}

// NewAllocation builds new_allocation_request. The id of the allocation is the
// hash of the returned transaction.
func (w *World) NewAllocation(p AllocParams) *transaction.Transaction {
	if p.DataShards == 0 {
		p.DataShards = 2
	}
	if p.ParityShards == 0 {
		p.ParityShards = 1
	}
	if p.Size == 0 {
		p.Size = GB
	}
	if p.Blobbers == nil {
		p.Blobbers = w.BlobberIDs(p.DataShards + p.ParityShards)
	}
	maxPrice := 7 * ZCN
	readMax, writeMax, lock := maxPrice, maxPrice, 10*ZCN
	if p.ReadMax != nil {
		readMax = *p.ReadMax
	}
	if p.WriteMax != nil {
		writeMax = *p.WriteMax
	}
	if p.Lock != nil {
		lock = *p.Lock
	}
	owner := p.OwnerID
	if owner == "" {
		owner = p.Owner.ID
	}
	tickets := p.AuthTickets
	if tickets == nil {
		tickets = make([]string, len(p.Blobbers))
		for i, id := range p.Blobbers {
			if b := w.Blobber(id); b != nil {
				tickets[i] = w.AuthTicket(b, owner)
			}
		}
	}
	in := struct {
		DataShards           int            `json:"data_shards"`
		ParityShards         int            `json:"parity_shards"`
		Size                 int64          `json:"size"`
		Owner                string         `json:"owner_id"`
		OwnerPublicKey       string         `json:"owner_public_key"`
		Blobbers             []string       `json:"blobbers"`
		BlobberAuthTickets   []string       `json:"blobber_auth_tickets"`
		ReadPriceRange       priceRangeJSON `json:"read_price_range"`
		WritePriceRange      priceRangeJSON `json:"write_price_range"`
		ThirdPartyExtendable bool           `json:"third_party_extendable"`
		FileOptionsChanged   bool           `json:"file_options_changed"`
		FileOptions          uint16         `json:"file_options"`
	}{
		DataShards: p.DataShards, ParityShards: p.ParityShards, Size: p.Size,
		Owner: p.OwnerID, OwnerPublicKey: p.OwnerPublicKey,
		Blobbers: p.Blobbers, BlobberAuthTickets: tickets,
		ReadPriceRange:       priceRangeJSON{p.ReadMin, readMax},
		WritePriceRange:      priceRangeJSON{p.WriteMin, writeMax},
		ThirdPartyExtendable: p.ThirdPartyExtendable,
	}
	if p.FileOptions != nil {
		in.FileOptionsChanged, in.FileOptions = true, *p.FileOptions
	}
	return w.call(p.Owner, "new_allocation_request", in, lock)
}

// AuthTicket is the blobber's signature of the owner id, which the contract
// verifies for restricted blobbers.
func (w *World) AuthTicket(b *Provider, ownerID string) string {
	sig, err := b.Op.Scheme.Sign(ownerID)
	if err != nil {
		panic(err)
	}
	return sig
}

// UpdateParams of update_allocation_request.
type UpdateParams struct {
	From    *sim.Wallet // sender: the owner, or anybody for a third-party-extendable allocation
	AllocID string
	// SizeDelta is added to the allocation size (>0 implies Extend); negative values are refused by the contract.
	SizeDelta int64
	// Extend resets the expiration to now + time_unit.
	Extend bool
	// AddBlobber / RemoveBlobber: add only = one more blobber, both = replace; remove only is refused.
	AddBlobber              *Provider
	RemoveBlobber           *Provider
	AddBlobberTicket        *string       // nil = valid ticket
	Lock                    currency.Coin // transaction value (tokens required by the update must be covered by it)
	SetThirdPartyExtendable bool
	FileOptions             *uint16
	NewOwnerID              string // transfer of ownership (needs NewOwnerPublicKey)
	NewOwnerPublicKey       string
}

// UpdateAllocation builds update_allocation_request.
func (w *World) UpdateAllocation(p UpdateParams) *transaction.Transaction {
	in := struct {
		ID                      string `json:"id"`
		OwnerID                 string `json:"owner_id"`
		OwnerPublicKey          string `json:"owner_public_key"`
		Size                    int64  `json:"size"`
		Extend                  bool   `json:"extend"`
		AddBlobberID            string `json:"add_blobber_id"`
		AddBlobberAuthTicket    string `json:"add_blobber_auth_ticket"`
		RemoveBlobberID         string `json:"remove_blobber_id"`
		SetThirdPartyExtendable bool   `json:"set_third_party_extendable"`
		FileOptionsChanged      bool   `json:"file_options_changed"`
		FileOptions             uint16 `json:"file_options"`
	}{ID: p.AllocID, OwnerID: p.NewOwnerID, OwnerPublicKey: p.NewOwnerPublicKey, Size: p.SizeDelta, Extend: p.Extend,
		SetThirdPartyExtendable: p.SetThirdPartyExtendable}
	if p.AddBlobber != nil {
		in.AddBlobberID = p.AddBlobber.ID()
		if p.AddBlobberTicket != nil {
			in.AddBlobberAuthTicket = *p.AddBlobberTicket
		} else {
			owner := p.From.ID
			if a, ok, _ := w.View().Allocation(p.AllocID); ok {
				owner = a.Owner
			}
			in.AddBlobberAuthTicket = w.AuthTicket(p.AddBlobber, owner)
		}
	}
	if p.RemoveBlobber != nil {
		in.RemoveBlobberID = p.RemoveBlobber.ID()
	}
	if p.FileOptions != nil {
		in.FileOptionsChanged, in.FileOptions = true, *p.FileOptions
	}
	return w.call(p.From, "update_allocation_request", in, p.Lock)
}

type lockRequest struct {
	AllocationID string `json:"allocation_id"`
}

// CancelAllocation builds cancel_allocation (owner only, before expiration).
func (w *World) CancelAllocation(from *sim.Wallet, allocID string) *transaction.Transaction {
	return w.call(from, "cancel_allocation", lockRequest{allocID}, 0)
}

// FinalizeAllocation builds finalize_allocation (owner or one of the
// allocation's blobbers, after expiration).
func (w *World) FinalizeAllocation(from *sim.Wallet, allocID string) *transaction.Transaction {
	return w.call(from, "finalize_allocation", lockRequest{allocID}, 0)
}

// WritePoolLock builds write_pool_lock: anybody adds `amount` to the allocation's write pool.
func (w *World) WritePoolLock(from *sim.Wallet, allocID string, amount currency.Coin) *transaction.Transaction {
	return w.call(from, "write_pool_lock", lockRequest{allocID}, amount)
}

// ReadPoolLock builds read_pool_lock; targetID "" locks into the sender's own read pool.
func (w *World) ReadPoolLock(from *sim.Wallet, targetID string, amount currency.Coin) *transaction.Transaction {
	in := struct {
		TargetID string `json:"target_id,omitempty"`
	}{targetID}
	return w.call(from, "read_pool_lock", in, amount)
}

// ReadPoolUnlock builds read_pool_unlock: the sender drains its read pool.
func (w *World) ReadPoolUnlock(from *sim.Wallet) *transaction.Transaction {
	return w.call(from, "read_pool_unlock", nil, 0)
}

// ---------------------------------------------------------------------------
// write markers

// WriteParams of a commit_connection.
type WriteParams struct {
	AllocID string
	Blobber *Provider
	// Signer signs the marker; the contract demands the allocation owner (its
	// public key stored in the allocation) and ClientID == owner id.
	Signer *sim.Wallet
	// Size > 0 upload, < 0 delete, 0 no change.
	Size int64
	// Timestamp of the marker (0 = now); must lie in [allocation start, expiration].
	Timestamp common.Timestamp
	// Root is the new allocation root ("" = a fresh deterministic 64-hex value).
	Root string
	// PrevRoot nil = the blobber's current allocation root read from state (correct chaining).
	PrevRoot *string
	// ClientID "" = Signer.ID.
	ClientID string
	// Sender nil = the blobber's operational wallet (the contract demands marker.blobber_id == sender).
	Sender *sim.Wallet
	// V2 builds a version-2 marker with chain hash/size: Size is then the delta and
	// chain_size = previous chain size + Size, chain_hash = sha256(prev chain hash ++ root).
	V2 bool
	// BadSignature corrupts the signature (for negative tests).
	BadSignature bool
}

// CommitConnection builds commit_connection with a signed write marker.
func (w *World) CommitConnection(p WriteParams) *transaction.Transaction {
	ts := p.Timestamp
	if ts == 0 {
		ts = w.H.Now
	}
	var cur AllocBlobber
	if a, ok, _ := w.View().Allocation(p.AllocID); ok {
		if d, ok := a.Blobber(p.Blobber.ID()); ok {
			cur = d
		}
	}
	prev := cur.AllocationRoot
	if p.PrevRoot != nil {
		prev = *p.PrevRoot
	}
	root := p.Root
	if root == "" {
		w.seq++
		root = encryption.Hash(fmt.Sprintf("verif-root|%s|%s|%s|%d|%d|%d", p.AllocID, p.Blobber.ID(), prev, p.Size, ts, w.seq))
	}
	clientID := p.ClientID
	if clientID == "" {
		clientID = p.Signer.ID
	}
	fileMeta := encryption.Hash("verif-filemeta|" + root)

	type markerV1 struct {
		AllocationRoot         string           `json:"allocation_root"`
		PreviousAllocationRoot string           `json:"prev_allocation_root"`
		FileMetaRoot           string           `json:"file_meta_root"`
		AllocationID           string           `json:"allocation_id"`
		Size                   int64            `json:"size"`
		BlobberID              string           `json:"blobber_id"`
		Timestamp              common.Timestamp `json:"timestamp"`
		ClientID               string           `json:"client_id"`
		Signature              string           `json:"signature"`
	}
	type markerV2 struct {
		Version                string           `json:"version"`
		AllocationRoot         string           `json:"allocation_root"`
		PreviousAllocationRoot string           `json:"prev_allocation_root"`
		FileMetaRoot           string           `json:"file_meta_root"`
		AllocationID           string           `json:"allocation_id"`
		Size                   int64            `json:"size"`
		ChainSize              int64            `json:"chain_size"`
		ChainHash              string           `json:"chain_hash"`
		BlobberID              string           `json:"blobber_id"`
		Timestamp              common.Timestamp `json:"timestamp"`
		ClientID               string           `json:"client_id"`
		Signature              string           `json:"signature"`
	}
	sign := func(hashData string) string {
		sig, err := p.Signer.Scheme.Sign(encryption.Hash(hashData))
		if err != nil {
			panic(err)
		}
		if p.BadSignature {
			sig2, err := p.Signer.Scheme.Sign(encryption.Hash(hashData + "|tampered"))
			if err != nil {
				panic(err)
			}
			return sig2
		}
		return sig
	}
	var marker interface{}
	if p.V2 {
		chainSize := cur.LastWMChainSize + p.Size
		hasher := newSHA256()
		if cur.HasWriteMarker {
			prevChain, _ := hex.DecodeString(cur.LastWMChainHash)
			hasher.Write(prevChain)
		}
		rootBytes, _ := hex.DecodeString(root)
		hasher.Write(rootBytes)
		chainHash := hex.EncodeToString(hasher.Sum(nil))
		m := markerV2{Version: "v2", AllocationRoot: root, PreviousAllocationRoot: prev, FileMetaRoot: fileMeta,
			AllocationID: p.AllocID, Size: p.Size, ChainSize: chainSize, ChainHash: chainHash,
			BlobberID: p.Blobber.ID(), Timestamp: ts, ClientID: clientID}
		m.Signature = sign(fmt.Sprintf("%s:%s:%s:%s:%s:%s:%s:%d:%d:%d", m.AllocationRoot, m.PreviousAllocationRoot,
			m.FileMetaRoot, m.ChainHash, m.AllocationID, m.BlobberID, m.ClientID, m.Size, m.ChainSize, m.Timestamp))
		marker = m
	} else {
		m := markerV1{AllocationRoot: root, PreviousAllocationRoot: prev, FileMetaRoot: fileMeta,
			AllocationID: p.AllocID, Size: p.Size, BlobberID: p.Blobber.ID(), Timestamp: ts, ClientID: clientID}
		m.Signature = sign(fmt.Sprintf("%s:%s:%s:%s:%s:%s:%d:%d", m.AllocationRoot, m.PreviousAllocationRoot,
			m.FileMetaRoot, m.AllocationID, m.BlobberID, m.ClientID, m.Size, m.Timestamp))
		marker = m
	}
	in := struct {
		AllocationRoot     string      `json:"allocation_root"`
		PrevAllocationRoot string      `json:"prev_allocation_root"`
		WriteMarker        interface{} `json:"write_marker"`
	}{root, prev, marker}
	sender := p.Sender
	if sender == nil {
		sender = p.Blobber.Op
	}
	return w.call(sender, "commit_connection", in, 0)
}

// ---------------------------------------------------------------------------
// read markers

// ReadParams of a read_redeem.
type ReadParams struct {
	AllocID string
	Blobber *Provider
	// Client is the reader: it signs the marker and its read pool pays.
	Client *sim.Wallet
	// OwnerID of the allocation ("" = Client.ID).
	OwnerID string
	// Counter is the cumulative number of 64 KiB blocks read; must grow.
	Counter int64
	// Timestamp (0 = now); must lie in [allocation start, expiration].
	Timestamp common.Timestamp
	// Signer nil = Client (another signer yields an invalid signature).
	Signer *sim.Wallet
	// Sender nil = the blobber's operational wallet (the contract does not check the sender).
	Sender *sim.Wallet
	// SignedCounter, when set, is the counter the client really signed; the marker then carries Counter with that
	// signature (a marker altered after signing).
	SignedCounter *int64
	// CarriedKey, when set, is the wallet whose public key the marker carries as client_public_key (the client id
	// stays Client's): with Signer set to the same wallet the marker is consistently signed by a foreign key pair.
	CarriedKey *sim.Wallet
}

// ReadRedeem builds read_redeem with a signed read marker.
func (w *World) ReadRedeem(p ReadParams) *transaction.Transaction {
	ts := p.Timestamp
	if ts == 0 {
		ts = w.H.Now
	}
	owner := p.OwnerID
	if owner == "" {
		owner = p.Client.ID
	}
	signer := p.Signer
	if signer == nil {
		signer = p.Client
	}
	type readMarker struct {
		ClientID        string           `json:"client_id"`
		ClientPublicKey string           `json:"client_public_key"`
		BlobberID       string           `json:"blobber_id"`
		AllocationID    string           `json:"allocation_id"`
		OwnerID         string           `json:"owner_id"`
		Timestamp       common.Timestamp `json:"timestamp"`
		ReadCounter     int64            `json:"counter"`
		Signature       string           `json:"signature"`
	}
	rm := readMarker{ClientID: p.Client.ID, ClientPublicKey: p.Client.PublicKey, BlobberID: p.Blobber.ID(),
		AllocationID: p.AllocID, OwnerID: owner, Timestamp: ts, ReadCounter: p.Counter}
	if p.CarriedKey != nil {
		rm.ClientPublicKey = p.CarriedKey.PublicKey
	}
	signedCtr := rm.ReadCounter
	if p.SignedCounter != nil {
		signedCtr = *p.SignedCounter
	}
	hashData := fmt.Sprintf("%v:%v:%v:%v:%v:%v:%v", rm.AllocationID, rm.BlobberID, rm.ClientID, rm.ClientPublicKey,
		rm.OwnerID, signedCtr, rm.Timestamp)
	sig, err := signer.Scheme.Sign(encryption.Hash(hashData))
	if err != nil {
		panic(err)
	}
	rm.Signature = sig
	in := struct {
		ReadMarker readMarker `json:"read_marker"`
	}{rm}
	sender := p.Sender
	if sender == nil {
		sender = p.Blobber.Op
	}
	return w.call(sender, "read_redeem", in, 0)
}

// ---------------------------------------------------------------------------
// challenges

type roundInput struct {
	Round int64 `json:"round"`
}

// GenerateChallenge builds the built-in generate_challenge transaction of the
// current block, sent in the name of the block's generator. When it creates a
// challenge its id is ChallengeIDOf(txn).
func (w *World) GenerateChallenge() *transaction.Transaction {
	return w.call(w.Generator(), "generate_challenge", roundInput{w.H.Round}, 0)
}

// ChallengeIDOf computes the id of the challenge a generate_challenge
// transaction creates in the current block: Hash(Hash(txn hash + previous block hash) + "1").
func (w *World) ChallengeIDOf(txn *transaction.Transaction) string {
	return encryption.Hash(encryption.Hash(txn.Hash+w.H.Cur.B.PrevHash) + "1")
}

// BlobberBlockRewards builds the built-in blobber_block_rewards transaction;
// the contract accepts it only when round % block_reward.trigger_period == 0.
func (w *World) BlobberBlockRewards() *transaction.Transaction {
	return w.call(w.Generator(), "blobber_block_rewards", roundInput{w.H.Round}, 0)
}

// CommitSettingsChanges builds the built-in commit_settings_changes transaction.
func (w *World) CommitSettingsChanges() *transaction.Transaction {
	return w.call(w.Generator(), "commit_settings_changes", roundInput{w.H.Round}, 0)
}

// Ticket describes one validation ticket of a challenge response.
type Ticket struct {
	ValidatorID string
	Success     bool
	// Signer nil = the validator's own key.
	Signer *sim.Wallet
}

// ChallengeResponse builds challenge_response for an open challenge with the
// given tickets, sent by the challenged blobber (sender nil) or by `sender`.
// The contract wants tickets of distinct validators of the challenge, at least
// total/2 of them, and lets the challenge pass when successes > total/2.
func (w *World) ChallengeResponse(ch Challenge, tickets []Ticket, sender *sim.Wallet) *transaction.Transaction {
	type ticketJSON struct {
		ChallengeID  string           `json:"challenge_id"`
		BlobberID    string           `json:"blobber_id"`
		ValidatorID  string           `json:"validator_id"`
		ValidatorKey string           `json:"validator_key"`
		Result       bool             `json:"success"`
		Message      string           `json:"message"`
		MessageCode  string           `json:"message_code"`
		Timestamp    common.Timestamp `json:"timestamp"`
		Signature    string           `json:"signature"`
	}
	var vts []ticketJSON
	for _, t := range tickets {
		vw := w.Wallet(t.ValidatorID)
		vt := ticketJSON{ChallengeID: ch.ID, BlobberID: ch.BlobberID, ValidatorID: t.ValidatorID,
			Result: t.Success, Message: "verif", MessageCode: "verif", Timestamp: w.H.Now}
		if vw != nil {
			vt.ValidatorKey = vw.PublicKey
		}
		signer := t.Signer
		if signer == nil {
			signer = vw
		}
		if signer != nil {
			hash := encryption.Hash(fmt.Sprintf("%v:%v:%v:%v:%v:%v", vt.ChallengeID, vt.BlobberID, vt.ValidatorID,
				vt.ValidatorKey, vt.Result, vt.Timestamp))
			sig, err := signer.Scheme.Sign(hash)
			if err != nil {
				panic(err)
			}
			vt.Signature = sig
		}
		vts = append(vts, vt)
	}
	in := struct {
		ID      string       `json:"challenge_id"`
		Tickets []ticketJSON `json:"validation_tickets"`
	}{ch.ID, vts}
	if sender == nil {
		sender = w.Wallet(ch.BlobberID)
	}
	return w.call(sender, "challenge_response", in, 0)
}

// PassingResponse answers a challenge with a success ticket of every selected validator.
func (w *World) PassingResponse(ch Challenge) *transaction.Transaction {
	return w.ChallengeResponse(ch, ticketsOf(ch, len(ch.ValidatorIDs)), nil)
}

// FailingResponse answers a challenge with a failure ticket of every selected
// validator (a valid transaction that makes the blobber fail the challenge).
func (w *World) FailingResponse(ch Challenge) *transaction.Transaction {
	return w.ChallengeResponse(ch, ticketsOf(ch, 0), nil)
}

// ticketsOf gives one ticket per validator of the challenge, the first nSuccess successful.
func ticketsOf(ch Challenge, nSuccess int) []Ticket {
	ts := make([]Ticket, len(ch.ValidatorIDs))
	for i, id := range ch.ValidatorIDs {
		ts[i] = Ticket{ValidatorID: id, Success: i < nSuccess}
	}
	return ts
}

// MixedResponse answers with nSuccess success tickets followed by failure tickets.
func (w *World) MixedResponse(ch Challenge, nSuccess int) *transaction.Transaction {
	return w.ChallengeResponse(ch, ticketsOf(ch, nSuccess), nil)
}

// ---------------------------------------------------------------------------
// free storage

// AddFreeStorageAssigner builds add_free_storage_assigner (contract owner only;
// from == nil uses s.Owner). The assigner is stored under `name`, which a marker
// must then carry in its "assigner" field. Limits are in tokens (ZCN).
func (w *World) AddFreeStorageAssigner(from *sim.Wallet, name string, assigner *sim.Wallet, individualLimit, totalLimit float64) *transaction.Transaction {
	in := struct {
		Name            string  `json:"name"`
		PublicKey       string  `json:"public_key"`
		IndividualLimit float64 `json:"individual_limit"`
		TotalLimit      float64 `json:"total_limit"`
	}{name, assigner.PublicKey, individualLimit, totalLimit}
	return w.call(w.orOwner(from), "add_free_storage_assigner", in, 0)
}

// FreeParams of a free_allocation_request.
type FreeParams struct {
	Recipient    *sim.Wallet // sender and owner of the new allocation
	AssignerName string
	Signer       *sim.Wallet // the assigner's key
	FreeTokens   float64     // in ZCN
	Nonce        int64
	Blobbers     []string // nil = the first data+parity blobbers of the free allocation settings (4+2 as shipped)
}

// FreeAllocation builds free_allocation_request with a marker signed by the assigner.
func (w *World) FreeAllocation(p FreeParams) *transaction.Transaction {
	return w.FreeAllocationFrom(p.Recipient, p)
}

// FreeAllocationFrom is FreeAllocation submitted by another wallet than the marker's recipient.
func (w *World) FreeAllocationFrom(sender *sim.Wallet, p FreeParams) *transaction.Transaction {
	if p.Blobbers == nil {
		n := 6
		if c, ok, _ := w.View().Config(); ok {
			n = c.FreeDataShards + c.FreeParityShards
		}
		p.Blobbers = w.BlobberIDs(n)
	}
	ids := ""
	for _, b := range p.Blobbers {
		ids += b
	}
	marker := fmt.Sprintf("%s:%f:%d:%s", p.Recipient.ID, p.FreeTokens, p.Nonce, ids)
	sig, err := p.Signer.Scheme.Sign(hex.EncodeToString([]byte(marker)))
	if err != nil {
		panic(err)
	}
	fsm := struct {
		Assigner   string   `json:"assigner"`
		Recipient  string   `json:"recipient"`
		FreeTokens float64  `json:"free_tokens"`
		Nonce      int64    `json:"nonce"`
		Signature  string   `json:"signature"`
		Blobbers   []string `json:"blobbers"`
	}{p.AssignerName, p.Recipient.ID, p.FreeTokens, p.Nonce, sig, p.Blobbers}
	in := struct {
		RecipientPublicKey string   `json:"recipient_public_key"`
		Marker             string   `json:"marker"`
		Blobbers           []string `json:"blobbers"`
	}{p.Recipient.PublicKey, mustJSON(fsm), p.Blobbers}
	return w.call(sender, "free_allocation_request", in, 0)
}

// ---------------------------------------------------------------------------
// settings

// UpdateSettings builds update_settings (contract owner only; from == nil uses
// s.Owner) with key -> value strings as in sc.yaml ("max_read_price": "5", ...).
// The new values become effective with commit_settings_changes.
func (w *World) UpdateSettings(from *sim.Wallet, fields map[string]string) *transaction.Transaction {
	in := struct {
		Fields map[string]string `json:"fields"`
	}{fields}
	return w.call(w.orOwner(from), "update_settings", in, 0)
}
