package simstorage

import (
	"crypto/sha256"
	"encoding/json"
	"hash"

	"0chain.net/chaincore/block"
	"0chain.net/smartcontract/stakepool/spenum"
	"0chain.net/smartcontract/storagesc"
	"verifharness/sim"
)

// The view types are the plain structs of the export shim
// (/verif/wip/storage/overlays/smartcontract/storagesc/verif_export_storage.go).
type (
	Allocation   = storagesc.VerifAllocation
	AllocBlobber = storagesc.VerifBlobberAlloc
	Terms        = storagesc.VerifTerms
	Stats        = storagesc.VerifStats
	Blobber      = storagesc.VerifBlobber
	Validator    = storagesc.VerifValidator
	StakePool    = storagesc.VerifStakePool
	DelegatePool = storagesc.VerifDelegatePool
	Challenge    = storagesc.VerifChallenge
	Assigner     = storagesc.VerifAssigner
	Config       = storagesc.VerifConfig
	ReadMarker   = storagesc.VerifReadMarker
)

// Views reads the storage contract's nodes out of one block state through a
// fresh, uncached trie handle. Every getter returns (value, exists, error):
// exists=false means the node is absent, error means it could not be decoded.
type Views struct {
	V *sim.View
}

// ViewAt opens the views on the (open or closed) block's current state root.
func ViewAt(b *block.Block) Views { return Views{V: sim.ViewOf(b)} }

// View opens the views on the world's current block, including the
// transactions already executed in it.
func (w *World) View() Views { return ViewAt(w.H.Cur.B) }

// Allocation node (absent after cancel/finalize: the contract deletes it).
func (v Views) Allocation(id string) (Allocation, bool, error) {
	return storagesc.VerifGetAllocation(v.V, id)
}

// ChallengePool balance of an allocation and whether the node exists.
func (v Views) ChallengePool(allocID string) (uint64, bool, error) {
	return storagesc.VerifGetChallengePool(v.V, allocID)
}

// Blobber node.
func (v Views) Blobber(id string) (Blobber, bool, error) { return storagesc.VerifGetBlobber(v.V, id) }

// Validator node.
func (v Views) Validator(id string) (Validator, bool, error) {
	return storagesc.VerifGetValidator(v.V, id)
}

// StakePool of a provider.
func (v Views) StakePool(p *Provider) (StakePool, bool, error) {
	return storagesc.VerifGetStakePool(v.V, int(p.Kind), p.ID())
}

// StakePoolOf reads the stake pool of a provider id of the given kind.
func (v Views) StakePoolOf(kind spenum.Provider, id string) (StakePool, bool, error) {
	return storagesc.VerifGetStakePool(v.V, int(kind), id)
}

// ReadPool balance of a client.
func (v Views) ReadPool(clientID string) (uint64, bool, error) {
	return storagesc.VerifGetReadPool(v.V, clientID)
}

// OpenChallenges of an allocation, oldest first, each joined with its
// challenge node (validator ids); exists=false when no challenge was ever
// generated for the allocation.
func (v Views) OpenChallenges(allocID string) ([]Challenge, bool, error) {
	return storagesc.VerifOpenChallenges(v.V, allocID)
}

// OpenChallengesOfBlobber filters OpenChallenges by blobber.
func (v Views) OpenChallengesOfBlobber(allocID, blobberID string) ([]Challenge, error) {
	all, _, err := v.OpenChallenges(allocID)
	if err != nil {
		return nil, err
	}
	var out []Challenge
	for _, c := range all {
		if c.BlobberID == blobberID {
			out = append(out, c)
		}
	}
	return out, nil
}

// Challenge node by id (deleted once the challenge is answered successfully or removed).
func (v Views) Challenge(id string) (Challenge, bool, error) {
	return storagesc.VerifGetChallenge(v.V, id)
}

// Assigner record of free storage registered under a name.
func (v Views) Assigner(name string) (Assigner, bool, error) {
	return storagesc.VerifGetAssigner(v.V, name)
}

// LastReadMarker redeemed for (blobber, client, allocation).
func (v Views) LastReadMarker(blobberID, clientID, allocID string) (ReadMarker, bool, error) {
	return storagesc.VerifGetReadMarker(v.V, blobberID, clientID, allocID)
}

// Config stored in state (what the contract works with).
func (v Views) Config() (Config, bool, error) { return storagesc.VerifGetConfig(v.V) }

// PendingSettings are the update_settings changes not committed yet.
func (v Views) PendingSettings() (map[string]string, error) {
	return storagesc.VerifPendingSettings(v.V)
}

// Balance of an account.
func (v Views) Balance(id string) uint64 { return v.V.Balance(id) }

func newSHA256() hash.Hash { return sha256.New() }

func mustJSON(v interface{}) string {
	b, err := json.Marshal(v)
	if err != nil {
		panic(err)
	}
	return string(b)
}
