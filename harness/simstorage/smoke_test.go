package simstorage

import (
	"fmt"
	"testing"

	"0chain.net/chaincore/transaction"
	"0chain.net/smartcontract/stakepool/spenum"
	"verifharness/sim"
	"verifharness/vkit"
)

func TestMain(m *testing.M) { vkit.Main(m) }

const MB = 1024 * 1024

type smoke struct {
	t *testing.T
	w *World
}

// ok executes the transaction and requires the outcome "ok".
func (s smoke) ok(step string, txn *transaction.Transaction) sim.Outcome {
	s.t.Helper()
	o, err := s.w.Exec(txn)
	if err != nil {
		s.t.Fatalf("step %q: %v", step, err)
	}
	out := o.Output
	if len(out) > 100 {
		out = out[:100] + "..."
	}
	fmt.Printf("ok   %-34s r%d t%d  %s\n", step, s.w.H.Round, s.w.H.Now, out)
	return o
}

// refused executes the transaction and requires that the contract refuses it.
func (s smoke) refused(step string, txn *transaction.Transaction) {
	s.t.Helper()
	_, err := s.w.Exec(txn)
	if err == nil {
		s.t.Fatalf("step %q: expected a refusal", step)
	}
	fmt.Printf("ref  %-34s %v\n", step, err)
}

func (s smoke) showAlloc(id string) Allocation {
	s.t.Helper()
	v := s.w.View()
	a, ok, err := v.Allocation(id)
	if err != nil || !ok {
		s.t.Fatalf("allocation %s: ok=%v err=%v", id[:8], ok, err)
	}
	cp, cpOK, err := v.ChallengePool(id)
	if err != nil {
		s.t.Fatal(err)
	}
	fmt.Printf("     alloc %s owner=%s size=%d exp=%d wp=%d cp=%d(%v) sumIntegral=%d toCP=%d back=%d toVal=%d stats=%+v\n",
		id[:8], s.w.H.Label(a.Owner), a.Size, a.Expiration, a.WritePool, cp, cpOK, a.SumChallengePoolIntegral(),
		a.MovedToChallenge, a.MovedBack, a.MovedToValidators, a.Stats)
	for _, b := range a.Blobbers {
		fmt.Printf("       %s size=%d root=%.8s used=%d integral=%d offer=%d terms=%+v chall=%d/%d/%d reward=%d\n",
			s.w.H.Label(b.BlobberID), b.Size, b.AllocationRoot, b.Stats.UsedSize, b.ChallengePoolIntegralValue, b.Offer, b.Terms,
			b.Stats.OpenChallenges, b.Stats.SuccessChallenges, b.Stats.FailedChallenges, b.ChallengeReward)
	}
	if cpOK && cp != a.SumChallengePoolIntegral() {
		fmt.Printf("     NOTE challenge pool %d != sum of integral values %d\n", cp, a.SumChallengePoolIntegral())
	}
	return a
}

func (s smoke) showProvider(p *Provider) StakePool {
	s.t.Helper()
	sp, ok, err := s.w.View().StakePool(p)
	if err != nil {
		s.t.Fatal(err)
	}
	fmt.Printf("     stake pool %s exists=%v stake=%d offers=%d reward=%d killed=%v pools=%+v\n", p.Op.Name, ok, sp.TotalStake, sp.TotalOffers, sp.Reward, sp.Killed, sp.Pools)
	return sp
}

// challenge generates challenges block after block until one is open for the allocation.
func (s smoke) challenge(allocID string) Challenge {
	s.t.Helper()
	for i := 0; i < 40; i++ {
		s.w.H.NextBlock(1, 2)
		txn := s.w.GenerateChallenge()
		s.ok("generate_challenge", txn)
		chs, _, err := s.w.View().OpenChallenges(allocID)
		if err != nil {
			s.t.Fatal(err)
		}
		if len(chs) > 0 {
			ch := chs[len(chs)-1]
			if ch.ID != s.w.ChallengeIDOf(txn) {
				s.t.Fatalf("challenge id %s, predicted %s", ch.ID, s.w.ChallengeIDOf(txn))
			}
			fmt.Printf("     challenge %.8s blobber=%s validators=%d round=%d\n", ch.ID, s.w.H.Label(ch.BlobberID), len(ch.ValidatorIDs), ch.RoundCreatedAt)
			return ch
		}
	}
	s.t.Fatalf("no challenge generated for %s", allocID[:8])
	return Challenge{}
}

func TestLifeCycle(t *testing.T) {
	sm, err := sim.Boot(sim.Options{})
	if err != nil {
		t.Fatalf("VERIF-HARNESS-ERROR boot: %v", err)
	}
	h := sm.NewHistory(sm.Genesis)
	w, err := Setup(h, 5, 4)
	if err != nil {
		t.Fatalf("setup: %v", err)
	}
	s := smoke{t, w}
	owner, reader := sm.Clients[0], sm.Clients[1]
	b0, b1, b2, b3 := w.Blobbers[0], w.Blobbers[1], w.Blobbers[2], w.Blobbers[3]
	s.showProvider(b0)
	supply0 := totalSupply(t, w)

	// --- allocation A: 2+1 shards on b0,b1,b2
	txn := w.NewAllocation(AllocParams{Owner: owner})
	s.ok("new_allocation_request", txn)
	allocA := txn.Hash
	a := s.showAlloc(allocA)
	if a.Owner != owner.ID || len(a.Blobbers) != 3 || a.WritePool != uint64(10*ZCN) {
		t.Fatalf("unexpected allocation %+v", a)
	}
	s.showProvider(b0)

	s.ok("write_pool_lock", w.WritePoolLock(owner, allocA, 5*ZCN))
	if a = s.showAlloc(allocA); a.WritePool != uint64(15*ZCN) {
		t.Fatalf("write pool %d", a.WritePool)
	}

	// --- two chained uploads to b0, one to b1, one v2 marker to b2
	s.ok("commit_connection upload b0 #1", w.CommitConnection(WriteParams{AllocID: allocA, Blobber: b0, Signer: owner, Size: 200 * MB}))
	s.ok("commit_connection upload b0 #2", w.CommitConnection(WriteParams{AllocID: allocA, Blobber: b0, Signer: owner, Size: 100 * MB}))
	s.ok("commit_connection upload b1", w.CommitConnection(WriteParams{AllocID: allocA, Blobber: b1, Signer: owner, Size: 300 * MB}))
	s.ok("commit_connection upload b2 (v2)", w.CommitConnection(WriteParams{AllocID: allocA, Blobber: b2, Signer: owner, Size: 300 * MB, V2: true}))
	s.refused("commit_connection bad signature", w.CommitConnection(WriteParams{AllocID: allocA, Blobber: b1, Signer: owner, Size: MB, BadSignature: true}))
	wrong := "00"
	s.refused("commit_connection wrong prev root", w.CommitConnection(WriteParams{AllocID: allocA, Blobber: b1, Signer: owner, Size: MB, PrevRoot: &wrong}))
	a = s.showAlloc(allocA)
	if d, _ := a.Blobber(b0.ID()); d.Stats.UsedSize != 300*MB {
		t.Fatalf("b0 used %d", d.Stats.UsedSize)
	}

	// --- challenge, half an hour later
	h.NextBlock(10, 1800)
	ch := s.challenge(allocA)
	s.ok("challenge_response pass", w.PassingResponse(ch))
	a = s.showAlloc(allocA)
	if a.Stats.SuccessChallenges != 1 || a.Stats.OpenChallenges != 0 {
		t.Fatalf("stats after passed challenge %+v", a.Stats)
	}
	s.showProvider(w.Blobber(ch.BlobberID))
	s.showProvider(w.Validator(ch.ValidatorIDs[0]))

	// a second challenge answered with failing tickets
	h.NextBlock(10, 600)
	ch2 := s.challenge(allocA)
	s.ok("challenge_response fail", w.FailingResponse(ch2))
	a = s.showAlloc(allocA)
	if a.Stats.FailedChallenges != 1 {
		t.Fatalf("stats after failed challenge %+v", a.Stats)
	}

	// --- reads
	s.ok("read_pool_lock", w.ReadPoolLock(reader, "", 2*ZCN))
	s.ok("read_redeem #1", w.ReadRedeem(ReadParams{AllocID: allocA, Blobber: b0, Client: reader, OwnerID: owner.ID, Counter: 1600}))
	s.ok("read_redeem #2", w.ReadRedeem(ReadParams{AllocID: allocA, Blobber: b0, Client: reader, OwnerID: owner.ID, Counter: 3200}))
	s.refused("read_redeem wrong signer", w.ReadRedeem(ReadParams{AllocID: allocA, Blobber: b0, Client: reader, OwnerID: owner.ID, Counter: 4000, Signer: owner}))
	rp, _, _ := w.View().ReadPool(reader.ID)
	rm, _, _ := w.View().LastReadMarker(b0.ID(), reader.ID, allocA)
	fmt.Printf("     read pool %d, last marker %+v\n", rp, rm)
	if rm.Counter != 3200 || rp >= uint64(2*ZCN) {
		t.Fatalf("read pool %d marker %+v", rp, rm)
	}
	s.ok("read_pool_unlock", w.ReadPoolUnlock(reader))
	if rp, _, _ = w.View().ReadPool(reader.ID); rp != 0 {
		t.Fatalf("read pool after unlock %d", rp)
	}

	// --- updates
	h.NextBlock(1, 60)
	s.ok("update_allocation extend+grow", w.UpdateAllocation(UpdateParams{From: owner, AllocID: allocA, SizeDelta: GB, Extend: true, Lock: ZCN}))
	s.refused("update_allocation shrink", w.UpdateAllocation(UpdateParams{From: owner, AllocID: allocA, SizeDelta: -MB}))
	s.ok("update_allocation add blobber", w.UpdateAllocation(UpdateParams{From: owner, AllocID: allocA, AddBlobber: b3}))
	s.ok("update_allocation replace blobber", w.UpdateAllocation(UpdateParams{From: owner, AllocID: allocA, AddBlobber: w.Blobbers[4], RemoveBlobber: b3}))
	s.refused("update_allocation remove only", w.UpdateAllocation(UpdateParams{From: owner, AllocID: allocA, RemoveBlobber: b2}))
	a = s.showAlloc(allocA)
	if a.Size != 2*GB || len(a.Blobbers) != 4 {
		t.Fatalf("after updates: size %d blobbers %d", a.Size, len(a.Blobbers))
	}

	// --- delete marker
	s.ok("commit_connection delete b0", w.CommitConnection(WriteParams{AllocID: allocA, Blobber: b0, Signer: owner, Size: -100 * MB}))
	a = s.showAlloc(allocA)
	if d, _ := a.Blobber(b0.ID()); d.Stats.UsedSize != 200*MB {
		t.Fatalf("b0 used after delete %d", d.Stats.UsedSize)
	}

	// --- allocation B (to be finalized), then cancel A
	txn = w.NewAllocation(AllocParams{Owner: owner, Blobbers: []string{b1.ID(), b2.ID(), b3.ID()}, Size: 512 * MB})
	s.ok("new_allocation_request B", txn)
	allocB := txn.Hash
	s.ok("commit_connection upload B/b1", w.CommitConnection(WriteParams{AllocID: allocB, Blobber: b1, Signer: owner, Size: 50 * MB}))
	s.showAlloc(allocB)

	s.refused("finalize_allocation not expired", w.FinalizeAllocation(owner, allocA))
	balBefore := w.View().Balance(owner.ID)
	s.ok("cancel_allocation A", w.CancelAllocation(owner, allocA))
	if _, ok, _ := w.View().Allocation(allocA); ok {
		t.Fatalf("allocation A still in state after cancel")
	}
	if _, ok, _ := w.View().ChallengePool(allocA); ok {
		t.Fatalf("challenge pool of A still in state after cancel")
	}
	fmt.Printf("     owner got back %d\n", w.View().Balance(owner.ID)-balBefore)
	s.showProvider(b0)

	// --- expire B and finalize it
	h.NextBlock(100, 31*24*3600)
	s.refused("cancel_allocation expired", w.CancelAllocation(owner, allocB))
	s.ok("finalize_allocation B (by blobber)", w.FinalizeAllocation(b1.Op, allocB))
	if _, ok, _ := w.View().Allocation(allocB); ok {
		t.Fatalf("allocation B still in state after finalize")
	}

	// --- rewards and stake
	spBefore := s.showProvider(b0)
	bal := w.View().Balance(b0.Delegate.ID)
	s.ok("collect_reward b0 delegate", w.CollectReward(b0.Delegate, b0))
	got := w.View().Balance(b0.Delegate.ID) - bal
	fmt.Printf("     collected %d\n", got)
	dp, _ := spBefore.Pool(b0.Delegate.ID)
	if got != dp.Reward+spBefore.Reward {
		t.Fatalf("collected %d, pool reward %d + service charge %d", got, dp.Reward, spBefore.Reward)
	}
	bal = w.View().Balance(b0.Delegate.ID)
	s.ok("stake_pool_unlock b0 delegate", w.StakeUnlock(b0.Delegate, b0))
	fmt.Printf("     unlocked %d\n", w.View().Balance(b0.Delegate.ID)-bal)
	if sp := s.showProvider(b0); sp.TotalStake != 0 {
		t.Fatalf("stake after unlock %d", sp.TotalStake)
	}
	s.ok("collect_reward validator", w.CollectReward(w.Validators[0].Delegate, w.Validators[0]))

	h.NextBlock(1, 1)
	fmt.Printf("supply before %d after %d (minted by rewards: %d)\n", supply0, totalSupply(t, w), int64(totalSupply(t, w))-int64(supply0))
	fmt.Printf("history: %d applied, %d failed, %d rejected\n", h.Applied, h.Failed, h.Rejected)
}

func totalSupply(t *testing.T, w *World) uint64 {
	leaves, err := sim.ViewOf(w.H.Cur.B).Leaves()
	if err != nil {
		t.Fatal(err)
	}
	var sum uint64
	for _, val := range leaves {
		if st, ok := sim.IsAccountLeaf(val); ok {
			sum += uint64(st.Balance)
		}
	}
	return sum
}

// TestAdmin covers settings, free storage, blobber settings, block rewards,
// third-party extension, kill and shutdown.
func TestAdmin(t *testing.T) {
	sm, err := sim.Boot(sim.Options{})
	if err != nil {
		t.Fatalf("VERIF-HARNESS-ERROR boot: %v", err)
	}
	// a fork of genesis: independent of the other tests of this process
	h := sm.NewHistory(sm.Genesis)
	w, err := Setup(h, 7, 5)
	if err != nil {
		t.Fatalf("setup: %v", err)
	}
	s := smoke{t, w}
	owner, other, recipient := sm.Clients[2], sm.Clients[3], sm.Clients[4]

	// --- settings: change, observe pending, commit, observe config
	s.refused("update_settings by non-owner", w.UpdateSettings(other, map[string]string{"max_read_price": "5"}))
	s.ok("update_settings", w.UpdateSettings(nil, map[string]string{
		"free_allocation_settings.read_price_range.max": "1",
		"max_read_price": "5",
	}))
	pend, err := w.View().PendingSettings()
	c, _, _ := w.View().Config()
	fmt.Printf("     pending %v err=%v; config max_read_price=%d\n", pend, err, c.MaxReadPrice)
	if len(pend) != 2 || c.MaxReadPrice != uint64(7*ZCN) {
		t.Fatalf("pending %v, max read price %d", pend, c.MaxReadPrice)
	}
	s.ok("commit_settings_changes", w.CommitSettingsChanges())
	c, _, _ = w.View().Config()
	if c.MaxReadPrice != uint64(5*ZCN) || c.FreeReadPriceMax != uint64(ZCN) {
		t.Fatalf("config after commit: max_read_price=%d free read max=%d", c.MaxReadPrice, c.FreeReadPriceMax)
	}
	fmt.Printf("     config max_read_price=%d free read max=%d\n", c.MaxReadPrice, c.FreeReadPriceMax)

	// --- free storage
	assigner, err := w.NewClient("assigner", 0, ZCN)
	if err != nil {
		t.Fatal(err)
	}
	s.refused("add_free_storage_assigner by non-owner", w.AddFreeStorageAssigner(other, assigner.ID, assigner, 10, 100))
	s.ok("add_free_storage_assigner", w.AddFreeStorageAssigner(nil, assigner.ID, assigner, 10, 100))
	free := FreeParams{Recipient: recipient, AssignerName: assigner.ID, Signer: assigner, FreeTokens: 5, Nonce: 1}
	txn := w.FreeAllocation(free)
	s.ok("free_allocation_request", txn)
	s.showAlloc(txn.Hash)
	as, ok, err := w.View().Assigner(assigner.ID)
	fmt.Printf("     assigner %+v %v %v\n", as, ok, err)
	if !ok || as.CurrentRedeemed != uint64(5*ZCN) || len(as.RedeemedNonces) != 1 {
		t.Fatalf("assigner %+v", as)
	}
	s.refused("free_allocation_request replay", w.FreeAllocation(free))
	free.Nonce, free.Signer = 2, other
	s.refused("free_allocation_request wrong signer", w.FreeAllocation(free))

	// --- blobber settings
	b0, b6 := w.Blobbers[0], w.Blobbers[6]
	capacity, wp, rp := 2000*GB, ZCN/5, ZCN/50
	s.refused("update_blobber_settings by op wallet", w.UpdateBlobberSettings(b6.Op, b6, BlobberUpdate{Capacity: &capacity}))
	s.ok("update_blobber_settings", w.UpdateBlobberSettings(nil, b6, BlobberUpdate{Capacity: &capacity, WritePrice: &wp, ReadPrice: &rp}))
	bb, _, _ := w.View().Blobber(b6.ID())
	if bb.Capacity != capacity || bb.Terms.WritePrice != uint64(wp) || bb.Terms.ReadPrice != uint64(rp) {
		t.Fatalf("blobber after update %+v", bb)
	}
	fmt.Printf("     blobber6 %+v\n", bb)

	// --- third-party extension
	txn = w.NewAllocation(AllocParams{Owner: owner, ThirdPartyExtendable: true, Blobbers: []string{b6.ID(), w.Blobbers[5].ID(), w.Blobbers[4].ID()}})
	s.ok("new_allocation_request", txn)
	alloc := txn.Hash
	a := s.showAlloc(alloc)
	h.NextBlock(1, 600)
	s.ok("update_allocation third party extend", w.UpdateAllocation(UpdateParams{From: other, AllocID: alloc, Extend: true}))
	s.refused("update_allocation third party add blobber w/o extend", w.UpdateAllocation(UpdateParams{From: other, AllocID: alloc, AddBlobber: w.Blobbers[3]}))
	if a2 := s.showAlloc(alloc); a2.Expiration != a.Expiration+600 {
		t.Fatalf("expiration %d -> %d", a.Expiration, a2.Expiration)
	}
	s.ok("commit_connection", w.CommitConnection(WriteParams{AllocID: alloc, Blobber: b6, Signer: owner, Size: 10 * MB}))
	ch := s.challenge(alloc)
	s.ok("challenge_response 2 of 3", w.MixedResponse(ch, 2))

	// --- block rewards at the next multiple of the trigger period
	next := (h.Round/30 + 1) * 30
	h.NextBlock(next-h.Round, next-h.Round)
	s.ok("blobber_block_rewards", w.BlobberBlockRewards())
	s.showProvider(b6)
	h.NextBlock(1, 1)
	s.refused("blobber_block_rewards off period", w.BlobberBlockRewards())

	// --- kill and shutdown
	v0, v1 := w.Validators[0], w.Validators[1]
	s.refused("kill_blobber by non-owner", w.KillBlobber(other, b0))
	before := s.showProvider(b0)
	s.ok("kill_blobber", w.KillBlobber(nil, b0))
	after := s.showProvider(b0)
	bb, ok, _ = w.View().Blobber(b0.ID())
	fmt.Printf("     blobber0 exists=%v killed=%v\n", ok, bb.Killed)
	if !ok || !bb.Killed || !after.Killed || after.TotalStake*2 != before.TotalStake {
		t.Fatalf("kill: blobber %+v stake %d -> %d", bb, before.TotalStake, after.TotalStake)
	}
	s.ok("kill_validator", w.KillValidator(nil, v0))
	vv, ok, _ := w.View().Validator(v0.ID())
	if !ok || !vv.Killed {
		t.Fatalf("validator after kill %+v %v", vv, ok)
	}
	b1 := w.Blobbers[1]
	s.refused("shutdown_blobber by stranger", w.ShutdownBlobber(other, b1))
	s.ok("shutdown_blobber", w.ShutdownBlobber(nil, b1))
	bb, _, _ = w.View().Blobber(b1.ID())
	if !bb.ShutDown {
		t.Fatalf("blobber after shutdown %+v", bb)
	}
	s.showProvider(b1)
	s.ok("shutdown_validator", w.ShutdownValidator(nil, v1))
	vv, _, _ = w.View().Validator(v1.ID())
	if !vv.ShutDown {
		t.Fatalf("validator after shutdown %+v", vv)
	}
	s.refused("new_allocation_request with killed blobber", w.NewAllocation(AllocParams{Owner: owner, Blobbers: []string{b0.ID(), b1.ID(), b6.ID()}}))
	// the contract keeps the offers of a killed blobber, so its stake stays locked
	s.refused("stake_pool_unlock of killed blobber with offers", w.StakeUnlock(b0.Delegate, b0))
	s.ok("stake_pool_unlock of killed validator", w.StakeUnlock(v0.Delegate, v0))
	// shutdown sent by the delegate wallet: the contract saves the slashed pool under the SENDER's id
	stray, strayOK, _ := w.View().StakePoolOf(spenum.Blobber, b1.Delegate.ID)
	fmt.Printf("     stake pool stored under the delegate wallet id of blobber1: exists=%v %+v\n", strayOK, stray)
	if err := w.KeepAlive(); err != nil {
		t.Fatalf("keep alive: %v", err)
	}
	fmt.Printf("history: %d applied, %d failed, %d rejected\n", h.Applied, h.Failed, h.Rejected)
}
