// Package vlog silences the 0chain loggers in check processes.
package vlog

import (
	"github.com/0chain/common/core/logging"
	"go.uber.org/zap"
)

// Quiet installs no-op loggers (Panic/Fatal levels keep their semantics).
func Quiet() {
	nop := zap.NewNop()
	logging.Logger = nop
	logging.N2n = nop
	logging.MemUsage = nop
	logging.HCLogger = nop
}
