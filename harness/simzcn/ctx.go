// Package simzcn drives the bridge contract (zcnsc) and the multi-signature wallet
// contract (multisigsc) through the E1 harness: it registers authorizers / wallets with
// real transactions, builds every request of both contracts (including the signatures
// the contracts verify inside payloads) and reads the contracts' nodes back through
// read-only shims.
//
// The shims live in /verif/wip/zcn/overlays (export VERIF_EXTRA_OVERLAYS=/verif/wip/zcn/overlays).
package simzcn

import (
	"0chain.net/chaincore/block"
	cstate "0chain.net/chaincore/chain/state"
	"0chain.net/chaincore/transaction"
	"github.com/0chain/common/core/statecache"
	"github.com/0chain/common/core/util"
	"verifharness/sim"
)

// ReadCtx is a state context for reading contract nodes of a block's current state.
// It is read-only by construction: the trie sits on a scratch memory level above the
// block's node DB and has its own empty cache, so nothing a getter might write (or a
// state cache might hold) can reach or come from the chain.
func ReadCtx(s *sim.Sim, b *block.Block) cstate.StateContextI {
	db := util.NewLevelNodeDB(util.NewMemoryNodeDB(), b.ClientState.GetNodeDB(), false)
	mpt := util.NewMerklePatriciaTrie(db, util.Sequence(b.Round), b.ClientState.GetRoot(), statecache.NewEmpty())
	return cstate.NewStateContext(b, mpt, &transaction.Transaction{}, nil, nil, nil, s.Chain.GetSignatureScheme, nil, nil)
}
