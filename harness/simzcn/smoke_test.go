package simzcn

import (
	"fmt"
	"strings"
	"testing"

	"0chain.net/chaincore/transaction"
	"0chain.net/smartcontract/zcnsc"
	"verifharness/sim"
	"verifharness/vkit"
)

func TestMain(m *testing.M) { vkit.Main(m) }

func must(t *testing.T, h *sim.History, what string, txn *transaction.Transaction) sim.Outcome {
	t.Helper()
	o, err := Run(h, what, txn)
	if err != nil {
		t.Fatalf("%v\nhistory:\n%v", err, h.Render(20))
	}
	fmt.Printf("ok   %-34s -> %.140s\n", what, o.Output)
	return o
}

// notOK executes a transaction that must not be ok and returns the message.
func notOK(t *testing.T, h *sim.History, what string, txn *transaction.Transaction) string {
	t.Helper()
	o, err := h.Do(txn)
	if err != nil {
		t.Fatalf("%s: monitor: %v", what, err)
	}
	msg := o.Output
	if o.Rejected {
		msg = o.Err.Error()
	}
	if !o.Rejected && !o.Failed {
		t.Fatalf("%s: expected a failure, got ok: %s", what, o.Output)
	}
	fmt.Printf("FAIL %-34s -> %.140s\n", what, msg)
	return msg
}

func TestSmokeBridge(t *testing.T) {
	s, err := sim.Boot(sim.Options{})
	if err != nil {
		t.Fatalf("VERIF-HARNESS-ERROR boot: %v", err)
	}
	h := s.NewHistory(s.Genesis)
	// no stake (the contract needs none); min_stake_per_delegate 0 so that the empty pools earn the mint fee
	br, err := SetupBridgeWith(h, 3, Options{Config: EarnWithoutStake})
	if err != nil {
		t.Fatalf("setup bridge: %v\n%v", err, h.Render(20))
	}
	v, err := br.View()
	if err != nil {
		t.Fatal(err)
	}
	fmt.Print(v)
	if v.AuthorizerCount != 3 || v.Registered() != 3 {
		t.Fatalf("authorizers: count=%d registered=%d", v.AuthorizerCount, v.Registered())
	}
	for i, a := range v.Authorizers {
		if !a.Pool.Exists || a.Pool.DelegateWallet != br.Auths[i].Delegate.ID || a.PublicKey != br.Auths[i].Node.PublicKey || a.Stored.Bare {
			t.Fatalf("authorizer %d: %+v", i, a)
		}
	}
	h.NextBlock(1, 2)

	// --- mint: 3 authorizers, percent_authorizers 0.7 -> threshold 2
	user := s.Clients[0]
	amount := 5 * ZCN
	bal0 := sim.ViewOf(h.Cur.B).Balance(user.ID)
	sc0 := sim.ViewOf(h.Cur.B).Balance(sim.ZcnSC)
	notOK(t, h, "mint with 1 of 3 signatures", br.MintSigned(user, "0xeth-1", amount, 1, 0))
	must(t, h, "mint with 2 of 3 signatures", br.MintSigned(user, "0xeth-1", amount, 1, 0, 2))
	bal1 := sim.ViewOf(h.Cur.B).Balance(user.ID)
	sc1 := sim.ViewOf(h.Cur.B).Balance(sim.ZcnSC)
	cfg, _ := Config(s, h.Cur.B)
	share := cfg.MaxFee / 2 // max_fee split over the signatures; one share goes to one signer's pool
	fmt.Printf("mint: user %d -> %d (+%d), zcnsc %d -> %d (-%d), fee share %d\n", bal0, bal1, bal1-bal0, sc0, sc1, sc0-sc1, share)
	if bal1-bal0 != uint64(amount)-share || sc0-sc1 != uint64(amount)-share {
		t.Fatalf("mint moved user +%d, contract -%d; want %d", bal1-bal0, sc0-sc1, uint64(amount)-share)
	}
	if ok, err := Minted(s, h.Cur.B, 1); err != nil || !ok {
		t.Fatalf("nonce 1 minted=%v err=%v", ok, err)
	}
	if ok, _ := Minted(s, h.Cur.B, 2); ok {
		t.Fatal("nonce 2 reported as minted")
	}
	notOK(t, h, "mint the same nonce again", br.MintSigned(user, "0xeth-1", amount, 1, 0, 1, 2))
	notOK(t, h, "mint submitted by another client", br.Mint(s.Clients[4], func() *zcnsc.MintPayload {
		p := NewMintPayload("0xeth-2", amount, 2, user.ID)
		p.Signatures = br.Sigs(p, SigValid, 0, 1, 2)
		return p
	}()))
	// the fee share is in exactly one signer's pool
	v, _ = br.View()
	var rewards uint64
	for _, a := range v.Authorizers {
		rewards += a.Pool.TotalRewards
	}
	if rewards != share {
		t.Fatalf("pool rewards %d, want %d\n%v", rewards, share, v)
	}
	h.NextBlock(1, 2)

	// --- collect rewards, health check, config, fee
	for _, a := range br.Auths {
		av, _ := AuthorizerOf(s, h.Cur.B, a.ID())
		if av.Pool.TotalRewards == 0 {
			continue
		}
		before := sim.ViewOf(h.Cur.B).Balance(a.Delegate.ID)
		must(t, h, "collect-rewards "+a.Delegate.Name, br.CollectRewards(a.Delegate, a.ID()))
		after := sim.ViewOf(h.Cur.B).Balance(a.Delegate.ID)
		fmt.Printf("collect: %s %d -> %d (+%d), pool had %d\n", a.Delegate.Name, before, after, after-before, av.Pool.TotalRewards)
		if after-before != av.Pool.TotalRewards {
			t.Fatalf("collected %d of %d", after-before, av.Pool.TotalRewards)
		}
	}
	must(t, h, "authorizer-health-check", br.HealthCheck(br.Auths[0].Node, br.Auths[0].ID()))
	must(t, h, "update-authorizer-config", br.UpdateAuthorizerConfig(br.Auths[0].Delegate, br.Auths[0].ID(), 7))
	must(t, h, "update-global-config", br.UpdateGlobalConfig(br.Owner, map[string]string{"min_burn": "2", "percent_authorizers": "0.5"}))
	cfg, _ = Config(s, h.Cur.B)
	if cfg.MinBurn != uint64(2*ZCN) || cfg.PercentAuthorizers != 0.5 {
		t.Fatalf("config not updated: %+v", cfg)
	}
	av, _ := AuthorizerOf(s, h.Cur.B, br.Auths[0].ID())
	if av.Fee != 7 || av.LastHealthCheck != int64(h.Now) {
		t.Fatalf("authorizer 0: %+v", av)
	}

	// --- burn
	eth := "0x1234567890abcdef1234567890abcdef12345678"
	bal1 = sim.ViewOf(h.Cur.B).Balance(user.ID)
	sc1 = sim.ViewOf(h.Cur.B).Balance(sim.ZcnSC)
	notOK(t, h, "burn below min_burn", br.Burn(user, 1*ZCN, eth))
	must(t, h, "burn", br.Burn(user, 3*ZCN, eth))
	bal2 := sim.ViewOf(h.Cur.B).Balance(user.ID)
	sc2 := sim.ViewOf(h.Cur.B).Balance(sim.ZcnSC)
	fmt.Printf("burn: user %d -> %d, zcnsc %d -> %d\n", bal1, bal2, sc1, sc2)
	if bal1-bal2 != uint64(3*ZCN) || sc2-sc1 != uint64(3*ZCN) {
		t.Fatalf("burn moved user -%d contract +%d", bal1-bal2, sc2-sc1)
	}
	if n, err := BurnNonce(s, h.Cur.B, eth); err != nil || n != 1 {
		t.Fatalf("burn nonce %d err %v", n, err)
	}

	// --- delete
	must(t, h, "delete-authorizer", br.DeleteAuthorizer(br.Auths[2].Delegate, br.Auths[2].ID()))
	v, _ = br.View()
	fmt.Print(v)
	if v.AuthorizerCount != 2 || v.Registered() != 2 || v.Authorizers[2].Registered || !v.Authorizers[2].Pool.Exists {
		t.Fatalf("after delete: %v", v)
	}
	// 2 authorizers, percent 0.5 -> threshold 1
	must(t, h, "mint with 1 of 2 signatures", br.MintSigned(user, "0xeth-3", amount, 3, 1))
	h.NextBlock(1, 2)
	fmt.Println(strings.Join(h.Render(0), "\n"))
}

// TestObserveSignatures prints what the contract does with a mint that carries one valid signature and one that
// is not genuine (threshold 2 of 3). Nothing is asserted about the outcome: deciding it is a check's job.
func TestObserveSignatures(t *testing.T) {
	s, err := sim.Boot(sim.Options{})
	if err != nil {
		t.Fatalf("VERIF-HARNESS-ERROR boot: %v", err)
	}
	h := s.NewHistory(s.Genesis)
	br, err := SetupBridge(h, 3)
	if err != nil {
		t.Fatal(err)
	}
	user := s.Clients[0]
	for i, k := range SigKinds {
		q := NewMintPayload(fmt.Sprintf("0xeth-k%d", i), 5*ZCN, int64(100+i), user.ID)
		q.Signatures = append(br.Sigs(q, SigValid, 0), Sig(br.Auths[1], k, q))
		before := sim.ViewOf(h.Cur.B).Balance(user.ID)
		o, _ := h.Do(br.Mint(user, q))
		res := "ok"
		if o.Rejected {
			res = "rejected: " + o.Err.Error()
		} else if o.Failed {
			res = "failed: " + o.Output
		}
		fmt.Printf("mint 1 valid + 1 %-14s (genuine=%v) -> minted %d: %.100s\n", k, k.Genuine(), sim.ViewOf(h.Cur.B).Balance(user.ID)-before, res)
	}
}

// TestObserveStake prints what staking does to an authorizer's stake pool. Only the acceptance of the lock
// itself is asserted.
func TestObserveStake(t *testing.T) {
	s, err := sim.Boot(sim.Options{})
	if err != nil {
		t.Fatalf("VERIF-HARNESS-ERROR boot: %v", err)
	}
	h := s.NewHistory(s.Genesis)
	br, err := SetupBridge(h, 2)
	if err != nil {
		t.Fatal(err)
	}
	a := br.Auths[0]
	show := func(when string) {
		av, err := AuthorizerOf(s, h.Cur.B, a.ID())
		if err != nil {
			t.Fatal(err)
		}
		fmt.Printf("%s:\n  contract reads: %+v\n  stored:         %+v\n", when, av.Pool, av.Stored)
	}
	show("after add-authorizer")
	d0, c0 := sim.ViewOf(h.Cur.B).Balance(a.Delegate.ID), sim.ViewOf(h.Cur.B).Balance(sim.ZcnSC)
	must(t, h, "add-to-delegate-pool (delegate)", br.StakeLock(a.Delegate, a.ID(), 10*ZCN))
	d1, c1 := sim.ViewOf(h.Cur.B).Balance(a.Delegate.ID), sim.ViewOf(h.Cur.B).Balance(sim.ZcnSC)
	if d0-d1 != uint64(10*ZCN) || c1-c0 != uint64(10*ZCN) {
		t.Fatalf("lock moved delegate -%d contract +%d", d0-d1, c1-c0)
	}
	show("after the delegate wallet locked 10 ZCN")
	h.NextBlock(1, 2)
	for _, st := range []struct {
		what string
		txn  func() *transaction.Transaction // built when its turn comes: the nonce is read from state
	}{
		{"add-to-delegate-pool (client1)", func() *transaction.Transaction { return br.StakeLock(s.Clients[1], a.ID(), 2*ZCN) }},
		{"delete-from-delegate-pool (delegate)", func() *transaction.Transaction { return br.StakeUnlock(a.Delegate, a.ID()) }},
		{"update-authorizer-config (delegate)", func() *transaction.Transaction { return br.UpdateAuthorizerConfig(a.Delegate, a.ID(), 5) }},
		{"mint signed by 0 only, twice", func() *transaction.Transaction {
			p := NewMintPayload("0xeth-s", 5*ZCN, 1, s.Clients[0].ID)
			p.Signatures = br.Sigs(p, SigValid, 0, 0)
			return br.Mint(s.Clients[0], p)
		}},
		{"collect-rewards (delegate)", func() *transaction.Transaction { return br.CollectRewards(a.Delegate, a.ID()) }},
		{"delete-authorizer (delegate)", func() *transaction.Transaction { return br.DeleteAuthorizer(a.Delegate, a.ID()) }},
		{"delete-authorizer (owner)", func() *transaction.Transaction { return br.DeleteAuthorizer(br.Owner, a.ID()) }},
	} {
		o, _ := h.Do(st.txn())
		res := "ok " + o.Output
		if o.Rejected {
			res = "rejected: " + o.Err.Error()
		} else if o.Failed {
			res = "failed: " + o.Output
		}
		fmt.Printf("%-38s -> %.150s\n", st.what, res)
		if strings.HasPrefix(st.what, "mint") {
			show("after the mint")
		}
	}
	show("at the end")
}

func TestSmokeMultiSig(t *testing.T) {
	s, err := sim.Boot(sim.Options{})
	if err != nil {
		t.Fatalf("VERIF-HARNESS-ERROR boot: %v", err)
	}
	h := s.NewHistory(s.Genesis)
	owner := sim.NewWallet("msig", 0)
	m, err := NewMultiSig(owner, 2, 3)
	if err != nil {
		t.Fatal(err)
	}
	m2, _ := NewMultiSig(owner, 2, 3)
	for i := range m.Signers {
		if m.Signers[i].Wallet.ID != m2.Signers[i].Wallet.ID {
			t.Fatal("shares are not deterministic")
		}
	}
	funder := s.Clients[2]
	must(t, h, "fund wallet", h.Tx(funder, owner.ID, 50*ZCN, 0, transaction.TxnTypeSend, ""))
	if err := m.FundSigners(h, funder, 1*ZCN); err != nil {
		t.Fatal(err)
	}
	must(t, h, "register 2-of-3", m.Register(h))
	notOK(t, h, "register again", m.Register(h))
	w, err := m.WalletAt(s, h.Cur.B)
	if err != nil || !w.Registered || w.NumRequired != 2 || len(w.SignerPublicKeys) != 3 {
		t.Fatalf("wallet view %+v err %v", w, err)
	}
	fmt.Printf("wallet: %+v\n", w)
	h.NextBlock(1, 2)

	to := s.Clients[3]
	amount := 7 * ZCN
	w0, r0 := sim.ViewOf(h.Cur.B).Balance(owner.ID), sim.ViewOf(h.Cur.B).Balance(to.ID)
	notOK(t, h, "vote with a wrong share signature", m.Vote(h, "p1", to.ID, amount, 1, false))
	must(t, h, "vote signer 0", m.Vote(h, "p1", to.ID, amount, 0, true))
	p, err := m.ProposalAt(s, h.Cur.B, "p1")
	if err != nil || !p.Exists || len(p.Votes) != 1 || p.Executed {
		t.Fatalf("proposal after 1 vote: %+v err %v", p, err)
	}
	fmt.Printf("proposal: %+v\n", p)
	if got := sim.ViewOf(h.Cur.B).Balance(owner.ID); got != w0 {
		t.Fatalf("wallet moved before the threshold: %d -> %d", w0, got)
	}
	must(t, h, "vote signer 0 again (duplicate)", m.Vote(h, "p1", to.ID, amount, 0, true))
	notOK(t, h, "vote differing transfer", m.Vote(h, "p1", to.ID, amount+1, 2, true))
	h.NextBlock(1, 2)
	must(t, h, "vote signer 2", m.Vote(h, "p1", to.ID, amount, 2, true))
	w1, r1 := sim.ViewOf(h.Cur.B).Balance(owner.ID), sim.ViewOf(h.Cur.B).Balance(to.ID)
	p, _ = m.ProposalAt(s, h.Cur.B, "p1")
	fmt.Printf("proposal: %+v\nwallet %d -> %d, recipient %d -> %d, wallet signature valid: %v\n", p, w0, w1, r0, r1, m.WalletSignatureValid(p))
	if !p.Executed || len(p.Votes) != 2 || w0-w1 != uint64(amount) || r1-r0 != uint64(amount) {
		t.Fatalf("transfer not executed: %+v", p)
	}
	if !m.WalletSignatureValid(p) {
		t.Fatal("reconstructed signature is not the wallet's signature over the transfer")
	}
	must(t, h, "vote signer 1 after execution", m.Vote(h, "p1", to.ID, amount, 1, true))
	if got := sim.ViewOf(h.Cur.B).Balance(owner.ID); got != w1 {
		t.Fatalf("executed twice: %d -> %d", w1, got)
	}
	notOK(t, h, "vote by a non-signer", m.VoteRaw(h, funder, m.NewVote("p2", to.ID, amount, 0, true)))

	// --- expiry: a proposal lives one week of block time
	must(t, h, "vote signer 1 on p2", m.Vote(h, "p2", to.ID, 1*ZCN, 1, true))
	h.NextBlock(1, ProposalLifetime)
	p2, _ := m.ProposalAt(s, h.Cur.B, "p2")
	fmt.Printf("p2 after a week: %+v\n", p2)
	if !p2.Exists || !p2.Expired {
		t.Fatalf("p2 not expired: %+v", p2)
	}
	notOK(t, h, "vote signer 2 on expired p2", m.Vote(h, "p2", to.ID, 1*ZCN, 2, true))
	h.NextBlock(1, 2)
	fmt.Println(strings.Join(h.Render(0), "\n"))
}
