package simzcn

import (
	"fmt"
	"testing"

	"0chain.net/chaincore/transaction"
	"verifharness/sim"
	"verifharness/vkit"
)

func TestMain(m *testing.M) { vkit.Main(m) }

func must(t *testing.T, h *sim.History, what string, txn *transaction.Transaction) sim.Outcome {
	t.Helper()
	o, err := Run(h, what, txn)
	if err != nil {
		t.Fatalf("%v\nhistory:\n%v", err, h.Render(20))
	}
	fmt.Printf("ok   %-34s -> %.140s\n", what, o.Output)
	return o
}

// notOK executes a transaction that must not be ok and returns the message.
func notOK(t *testing.T, h *sim.History, what string, txn *transaction.Transaction) string {
	t.Helper()
	o, err := h.Do(txn)
	if err != nil {
		t.Fatalf("%s: monitor: %v", what, err)
	}
	msg := o.Output
	if o.Rejected {
		msg = o.Err.Error()
	}
	if !o.Rejected && !o.Failed {
		t.Fatalf("%s: expected a failure, got ok: %s", what, o.Output)
	}
	fmt.Printf("FAIL %-34s -> %.140s\n", what, msg)
	return msg
}

func TestSmokeBridge(t *testing.T) {
	s, err := sim.Boot(sim.Options{})
	if err != nil {
		t.Fatalf("VERIF-HARNESS-ERROR boot: %v", err)
	}
	h := s.NewHistory(s.Genesis)
	br, err := SetupBridge(h, 3)
	if err != nil {
		t.Fatalf("setup bridge: %v\n%v", err, h.Render(20))
	}
	v, err := br.View()
	if err != nil {
		t.Fatal(err)
	}
	fmt.Print(v)
	if v.AuthorizerCount != 3 || v.Registered() != 3 {
		t.Fatalf("authorizers: count=%d registered=%d", v.AuthorizerCount, v.Registered())
	}
	for _, a := range v.Authorizers {
		if !a.Pool.Exists || a.Pool.TotalStake != uint64(10*ZCN) || len(a.Pool.Delegates) != 1 {
			t.Fatalf("stake pool of %s: %+v", a.ID, a.Pool)
		}
	}
	h.NextBlock(1, 2)

	// --- mint: 3 authorizers, percent_authorizers 0.7 -> threshold 2
	user := s.Clients[0]
	amount := 5 * ZCN
	bal0 := sim.ViewOf(h.Cur.B).Balance(user.ID)
	sc0 := sim.ViewOf(h.Cur.B).Balance(sim.ZcnSC)
	p := NewMintPayload("0xeth-1", amount, 1, user.ID)
	if p.GetStringToSign() != MintMessage("0xeth-1", amount, 1, user.ID) {
		t.Fatal("mint message differs from the contract's")
	}
	notOK(t, h, "mint with 1 of 3 signatures", br.MintSigned(user, "0xeth-1", amount, 1, 0))
	must(t, h, "mint with 2 of 3 signatures", br.MintSigned(user, "0xeth-1", amount, 1, 0, 2))
	bal1 := sim.ViewOf(h.Cur.B).Balance(user.ID)
	sc1 := sim.ViewOf(h.Cur.B).Balance(sim.ZcnSC)
	cfg, _ := Config(s, h.Cur.B)
	share := cfg.MaxFee / 2 // max_fee split over the signatures; one share goes to one signer's pool
	fmt.Printf("mint: user %d -> %d (+%d), zcnsc %d -> %d (-%d), fee share %d\n", bal0, bal1, bal1-bal0, sc0, sc1, sc0-sc1, share)
	if bal1-bal0 != uint64(amount)-share || sc0-sc1 != uint64(amount)-share {
		t.Fatalf("mint moved user +%d, contract -%d; want %d", bal1-bal0, sc0-sc1, uint64(amount)-share)
	}
	if ok, err := Minted(s, h.Cur.B, 1); err != nil || !ok {
		t.Fatalf("nonce 1 minted=%v err=%v", ok, err)
	}
	if ok, _ := Minted(s, h.Cur.B, 2); ok {
		t.Fatal("nonce 2 reported as minted")
	}
	notOK(t, h, "mint the same nonce again", br.MintSigned(user, "0xeth-1", amount, 1, 0, 1, 2))
	// rewards of the fee share are in exactly one signer's pool
	v, _ = br.View()
	var rewards uint64
	for _, a := range v.Authorizers {
		rewards += a.Pool.TotalRewards
	}
	if rewards != share {
		t.Fatalf("pool rewards %d, want %d\n%v", rewards, share, v)
	}

	// --- what the contract does with signatures that are not genuine (printed, not asserted: see report)
	for i, k := range SigKinds {
		if k == SigValid {
			continue
		}
		q := NewMintPayload(fmt.Sprintf("0xeth-k%d", i), amount, int64(100+i), user.ID)
		q.Signatures = append(br.Sigs(q, SigValid, 0), Sig(br.Auths[1], k, q))
		o, _ := h.Do(br.Mint(user, q))
		res := "ok (ACCEPTED)"
		if o.Rejected {
			res = "rejected: " + o.Err.Error()
		} else if o.Failed {
			res = "failed: " + o.Output
		}
		fmt.Printf("mint 1 valid + 1 %-14s -> %.120s\n", k, res)
	}
	h.NextBlock(1, 2)

	// --- collect rewards, health check, config, fee
	for _, a := range br.Auths {
		av, _ := AuthorizerOf(s, h.Cur.B, a.ID())
		if av.Pool.TotalRewards == 0 {
			continue
		}
		before := sim.ViewOf(h.Cur.B).Balance(a.Delegate.ID)
		must(t, h, "collect-rewards "+a.Delegate.Name, br.CollectRewards(a.Delegate, a.ID()))
		after := sim.ViewOf(h.Cur.B).Balance(a.Delegate.ID)
		fmt.Printf("collect: %s %d -> %d (+%d), pool had %d\n", a.Delegate.Name, before, after, after-before, av.Pool.TotalRewards)
		if after-before != av.Pool.TotalRewards {
			t.Fatalf("collected %d of %d", after-before, av.Pool.TotalRewards)
		}
	}
	must(t, h, "authorizer-health-check", br.HealthCheck(br.Auths[0].Node, br.Auths[0].ID()))
	must(t, h, "update-authorizer-config", br.UpdateAuthorizerConfig(br.Auths[0].Delegate, br.Auths[0].ID(), 7))
	must(t, h, "update-global-config", br.UpdateGlobalConfig(br.Owner, map[string]string{"min_burn": "2", "percent_authorizers": "0.5"}))
	cfg, _ = Config(s, h.Cur.B)
	if cfg.MinBurn != uint64(2*ZCN) || cfg.PercentAuthorizers != 0.5 {
		t.Fatalf("config not updated: %+v", cfg)
	}
	av, _ := AuthorizerOf(s, h.Cur.B, br.Auths[0].ID())
	if av.Fee != 7 || av.LastHealthCheck != int64(h.Now) {
		t.Fatalf("authorizer 0: %+v", av)
	}

	// --- burn
	eth := "0x1234567890abcdef1234567890abcdef12345678"
	bal1 = sim.ViewOf(h.Cur.B).Balance(user.ID)
	sc1 = sim.ViewOf(h.Cur.B).Balance(sim.ZcnSC)
	notOK(t, h, "burn below min_burn", br.Burn(user, 1*ZCN, eth))
	must(t, h, "burn", br.Burn(user, 3*ZCN, eth))
	bal2 := sim.ViewOf(h.Cur.B).Balance(user.ID)
	sc2 := sim.ViewOf(h.Cur.B).Balance(sim.ZcnSC)
	fmt.Printf("burn: user %d -> %d, zcnsc %d -> %d\n", bal1, bal2, sc1, sc2)
	if bal1-bal2 != uint64(3*ZCN) || sc2-sc1 != uint64(3*ZCN) {
		t.Fatalf("burn moved user -%d contract +%d", bal1-bal2, sc2-sc1)
	}
	if n, err := BurnNonce(s, h.Cur.B, eth); err != nil || n != 1 {
		t.Fatalf("burn nonce %d err %v", n, err)
	}

	// --- extra stake by another client, unlock, delete
	staker := s.Clients[1]
	must(t, h, "add-to-delegate-pool", br.StakeLock(staker, br.Auths[1].ID(), 2*ZCN))
	h.NextBlock(1, 2)
	b0 := sim.ViewOf(h.Cur.B).Balance(staker.ID)
	must(t, h, "delete-from-delegate-pool", br.StakeUnlock(staker, br.Auths[1].ID()))
	if got := sim.ViewOf(h.Cur.B).Balance(staker.ID) - b0; got != uint64(2*ZCN) {
		t.Fatalf("unlock returned %d", got)
	}
	must(t, h, "delete-authorizer", br.DeleteAuthorizer(br.Auths[2].Delegate, br.Auths[2].ID()))
	v, _ = br.View()
	fmt.Print(v)
	if v.AuthorizerCount != 2 || v.Registered() != 2 || v.Authorizers[2].Registered || !v.Authorizers[2].Pool.Exists {
		t.Fatalf("after delete: %v", v)
	}
	h.NextBlock(1, 2)
	fmt.Println(h.Render(0))
}

func TestSmokeMultiSig(t *testing.T) {
	s, err := sim.Boot(sim.Options{})
	if err != nil {
		t.Fatalf("VERIF-HARNESS-ERROR boot: %v", err)
	}
	h := s.NewHistory(s.Genesis)
	owner := sim.NewWallet("msig", 0)
	m, err := NewMultiSig(owner, 2, 3)
	if err != nil {
		t.Fatal(err)
	}
	m2, _ := NewMultiSig(owner, 2, 3)
	for i := range m.Signers {
		if m.Signers[i].Wallet.ID != m2.Signers[i].Wallet.ID {
			t.Fatal("shares are not deterministic")
		}
	}
	funder := s.Clients[2]
	must(t, h, "fund wallet", h.Tx(funder, owner.ID, 50*ZCN, 0, transaction.TxnTypeSend, ""))
	if err := m.FundSigners(h, funder, 1*ZCN); err != nil {
		t.Fatal(err)
	}
	must(t, h, "register 2-of-3", m.Register(h))
	notOK(t, h, "register again", m.Register(h))
	w, err := m.WalletAt(s, h.Cur.B)
	if err != nil || !w.Registered || w.NumRequired != 2 || len(w.SignerPublicKeys) != 3 {
		t.Fatalf("wallet view %+v err %v", w, err)
	}
	fmt.Printf("wallet: %+v\n", w)
	h.NextBlock(1, 2)

	to := s.Clients[3]
	amount := 7 * ZCN
	w0, r0 := sim.ViewOf(h.Cur.B).Balance(owner.ID), sim.ViewOf(h.Cur.B).Balance(to.ID)
	notOK(t, h, "vote with a wrong share signature", m.Vote(h, "p1", to.ID, amount, 1, false))
	must(t, h, "vote signer 0", m.Vote(h, "p1", to.ID, amount, 0, true))
	p, err := m.ProposalAt(s, h.Cur.B, "p1")
	if err != nil || !p.Exists || len(p.Votes) != 1 || p.Executed {
		t.Fatalf("proposal after 1 vote: %+v err %v", p, err)
	}
	fmt.Printf("proposal: %+v\n", p)
	if got := sim.ViewOf(h.Cur.B).Balance(owner.ID); got != w0 {
		t.Fatalf("wallet moved before the threshold: %d -> %d", w0, got)
	}
	must(t, h, "vote signer 0 again (duplicate)", m.Vote(h, "p1", to.ID, amount, 0, true))
	notOK(t, h, "vote differing transfer", m.Vote(h, "p1", to.ID, amount+1, 2, true))
	h.NextBlock(1, 2)
	must(t, h, "vote signer 2", m.Vote(h, "p1", to.ID, amount, 2, true))
	w1, r1 := sim.ViewOf(h.Cur.B).Balance(owner.ID), sim.ViewOf(h.Cur.B).Balance(to.ID)
	p, _ = m.ProposalAt(s, h.Cur.B, "p1")
	fmt.Printf("proposal: %+v\nwallet %d -> %d, recipient %d -> %d, wallet signature valid: %v\n", p, w0, w1, r0, r1, m.WalletSignatureValid(p))
	if !p.Executed || len(p.Votes) != 2 || w0-w1 != uint64(amount) || r1-r0 != uint64(amount) {
		t.Fatalf("transfer not executed: %+v", p)
	}
	if !m.WalletSignatureValid(p) {
		t.Fatal("reconstructed signature is not the wallet's signature over the transfer")
	}
	must(t, h, "vote signer 1 after execution", m.Vote(h, "p1", to.ID, amount, 1, true))
	if got := sim.ViewOf(h.Cur.B).Balance(owner.ID); got != w1 {
		t.Fatalf("executed twice: %d -> %d", w1, got)
	}
	h.NextBlock(1, 2)
	fmt.Println(h.Render(0))
}
