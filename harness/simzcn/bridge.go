package simzcn

import (
	"fmt"

	"0chain.net/chaincore/transaction"
	"0chain.net/core/config"
	"0chain.net/smartcontract/stakepool"
	"0chain.net/smartcontract/stakepool/spenum"
	"0chain.net/smartcontract/zcnsc"
	"github.com/0chain/common/core/currency"
	"verifharness/sim"
)

// ZCN is one token in the smallest unit.
const ZCN = currency.Coin(1e10)

// Authorizer is one bridge authorizer the harness owns.
type Authorizer struct {
	Index int
	// Node holds the authorizer's key: Node.ID is the authorizer id (hash of the public key) and the
	// only wallet that may send its health check.
	Node *sim.Wallet
	// Delegate is the delegate wallet of the authorizer's stake pool (the contract refuses Node itself):
	// it may delete the authorizer, update its config and collect the service charge.
	Delegate *sim.Wallet
	// Rogue is a key that is registered nowhere; used for signatures presented under this authorizer's id.
	Rogue *sim.Wallet
}

// ID is the authorizer id.
func (a *Authorizer) ID() string { return a.Node.ID }

// Options of SetupBridgeWith.
type Options struct {
	// Fund is sent by the owner to every authorizer wallet and delegate wallet (default 100 ZCN).
	Fund currency.Coin
	// Stake, when > 0, is locked by each delegate wallet in its authorizer's stake pool after registration.
	// The contract requires no stake to register or to sign, so the default is none. Two things to know:
	// a pool whose stake is below its min_stake (= min_stake_per_delegate at registration, 1 ZCN as shipped)
	// silently receives no mint fee; and `add-to-delegate-pool` stores the pool in an encoding the contract's own
	// getter reads back as an empty pool (see StakePoolView.Bare), after which the delegate wallet is no longer
	// recognised by collect-rewards / delete-authorizer / update-authorizer-config and the stake cannot be unlocked.
	Stake currency.Coin
	// Config, when not empty, is applied with `update-global-config` by the owner before the authorizers are
	// registered. With the shipped config every update must also set min_stake >= 0.0000000001, because the
	// contract validates min_stake >= 1 and the shipped value is 0.
	Config map[string]string
	// ServiceCharge and NumDelegates of the stake pools (defaults 0.1 and 5).
	ServiceCharge float64
	NumDelegates  int
	// Fee put on every transaction the library builds (default 0).
	Fee currency.Coin
	// First is the index of the first authorizer key (authorizer i uses keys "zcnauth"/"zcnauthdel" First+i).
	First int
}

// Bridge is the set of authorizers registered by the harness, plus the builders of every zcnsc request.
type Bridge struct {
	H     *sim.History
	Owner *sim.Wallet // owner of the contract: the only wallet that may add authorizers and update the config
	Auths []*Authorizer
	Fee   currency.Coin
}

// NewAuthorizer derives the wallets of authorizer i (nothing is executed).
func NewAuthorizer(i int) *Authorizer {
	return &Authorizer{
		Index:    i,
		Node:     sim.NewWallet("zcnauth", i),
		Delegate: sim.NewWallet("zcnauthdel", i),
		Rogue:    sim.NewWallet("zcnrogue", i),
	}
}

// Run executes a transaction in the history and turns every outcome but ok into an error
// carrying the contract's text.
func Run(h *sim.History, what string, txn *transaction.Transaction) (sim.Outcome, error) {
	o, err := h.Do(txn)
	if err != nil {
		return o, fmt.Errorf("%s: monitor: %v", what, err)
	}
	switch {
	case o.Rejected:
		return o, fmt.Errorf("%s: rejected: %v", what, o.Err)
	case o.Failed:
		return o, fmt.Errorf("%s: failed: %s", what, o.Output)
	}
	return o, nil
}

// EarnWithoutStake is a config under which an authorizer's empty stake pool receives the mint fee
// (credited as service charge of its delegate wallet).
var EarnWithoutStake = map[string]string{"min_stake_per_delegate": "0", "min_stake": "0.0000000001"}

// SetupBridge registers nAuthorizers authorizers through real transactions with the default options
// (no stake: the contract needs none).
func SetupBridge(h *sim.History, nAuthorizers int) (*Bridge, error) {
	return SetupBridgeWith(h, nAuthorizers, Options{})
}

// SetupBridgeWith funds the wallets of each authorizer from the owner, registers the authorizer with
// `add-authorizer` (sent by the owner, as the contract demands) and locks the stake from the delegate wallet.
func SetupBridgeWith(h *sim.History, nAuthorizers int, opt Options) (*Bridge, error) {
	if opt.Fund == 0 {
		opt.Fund = 100 * ZCN
	}
	if opt.ServiceCharge == 0 {
		opt.ServiceCharge = 0.1
	}
	if opt.NumDelegates == 0 {
		opt.NumDelegates = 5
	}
	b := &Bridge{H: h, Owner: h.S.Owner, Fee: opt.Fee}
	if len(opt.Config) > 0 {
		if _, err := Run(h, "update-global-config", b.UpdateGlobalConfig(b.Owner, opt.Config)); err != nil {
			return nil, err
		}
	}
	for i := 0; i < nAuthorizers; i++ {
		a := NewAuthorizer(opt.First + i)
		h.Know(a.Node.ID, a.Node.Name)
		h.Know(a.Delegate.ID, a.Delegate.Name)
		h.Know(a.Rogue.ID, a.Rogue.Name)
		for _, w := range []*sim.Wallet{a.Node, a.Delegate} {
			if _, err := Run(h, "fund "+w.Name, h.Tx(b.Owner, w.ID, opt.Fund, b.Fee, transaction.TxnTypeSend, "")); err != nil {
				return nil, err
			}
		}
		if _, err := Run(h, "add-authorizer "+a.Node.Name, b.AddAuthorizer(b.Owner, a, opt.ServiceCharge, opt.NumDelegates)); err != nil {
			return nil, err
		}
		b.Auths = append(b.Auths, a)
		if opt.Stake > 0 {
			if _, err := Run(h, "stake "+a.Node.Name, b.StakeLock(a.Delegate, a.ID(), opt.Stake)); err != nil {
				return nil, err
			}
		}
	}
	return b, nil
}

func (b *Bridge) call(from *sim.Wallet, fn string, input interface{}, value currency.Coin) *transaction.Transaction {
	return b.H.Call(from, sim.ZcnSC, fn, input, value, b.Fee)
}

// ---------------------------------------------------------------------------
// authorizers

// AddAuthorizerPayload is the request of `add-authorizer` for an authorizer.
func AddAuthorizerPayload(a *Authorizer, serviceCharge float64, numDelegates int) *zcnsc.AddAuthorizerPayload {
	return &zcnsc.AddAuthorizerPayload{
		PublicKey: a.Node.PublicKey,
		URL:       fmt.Sprintf("https://auth%d.verif.test", a.Index),
		StakePoolSettings: stakepool.Settings{
			DelegateWallet:     a.Delegate.ID,
			MaxNumDelegates:    numDelegates,
			ServiceChargeRatio: serviceCharge,
		},
	}
}

// AddAuthorizer builds `add-authorizer` (accepted only when from is the contract owner).
func (b *Bridge) AddAuthorizer(from *sim.Wallet, a *Authorizer, serviceCharge float64, numDelegates int) *transaction.Transaction {
	return b.AddAuthorizerRaw(from, AddAuthorizerPayload(a, serviceCharge, numDelegates))
}

// AddAuthorizerRaw builds `add-authorizer` with a caller-made payload.
func (b *Bridge) AddAuthorizerRaw(from *sim.Wallet, p *zcnsc.AddAuthorizerPayload) *transaction.Transaction {
	return b.call(from, zcnsc.AddAuthorizerFunc, p, 0)
}

// DeleteAuthorizer builds `delete-authorizer` (accepted from the owner or the pool's delegate wallet).
func (b *Bridge) DeleteAuthorizer(from *sim.Wallet, authorizerID string) *transaction.Transaction {
	return b.call(from, zcnsc.DeleteAuthorizerFunc, &zcnsc.DeleteAuthorizerPayload{ID: authorizerID}, 0)
}

// HealthCheck builds `authorizer-health-check` (accepted only when from is the authorizer itself).
func (b *Bridge) HealthCheck(from *sim.Wallet, authorizerID string) *transaction.Transaction {
	return b.call(from, zcnsc.AuthorizerHealthCheckFunc, &zcnsc.AuthorizerHealthCheckPayload{ID: authorizerID}, 0)
}

// UpdateAuthorizerConfig builds `update-authorizer-config` setting the authorizer's fee
// (accepted from the pool's delegate wallet, fee <= max_fee).
func (b *Bridge) UpdateAuthorizerConfig(from *sim.Wallet, authorizerID string, fee currency.Coin) *transaction.Transaction {
	in := struct {
		ID     string                 `json:"id"`
		Config zcnsc.AuthorizerConfig `json:"config"`
	}{authorizerID, zcnsc.AuthorizerConfig{Fee: fee}}
	return b.call(from, zcnsc.UpdateAuthorizerConfigFunc, in, 0)
}

// UpdateAuthorizerStakePool builds `update-authorizer-stake-pool`. The contract takes the sender as the
// authorizer id AND demands that the sender is the delegate wallet, which `add-authorizer` forbids, so no
// reachable state accepts it; the builder exists for negative tests.
func (b *Bridge) UpdateAuthorizerStakePool(from *sim.Wallet, delegateWallet string, serviceCharge float64, numDelegates int) *transaction.Transaction {
	return b.call(from, zcnsc.UpdateAuthorizerStakePoolFunc, &zcnsc.UpdateAuthorizerStakePoolPayload{
		StakePoolSettings: stakepool.Settings{DelegateWallet: delegateWallet, MaxNumDelegates: numDelegates, ServiceChargeRatio: serviceCharge},
	}, 0)
}

// ---------------------------------------------------------------------------
// stake pools and rewards

// StakeLock builds `add-to-delegate-pool`: from locks value in the authorizer's stake pool.
func (b *Bridge) StakeLock(from *sim.Wallet, authorizerID string, value currency.Coin) *transaction.Transaction {
	return b.call(from, zcnsc.AddToDelegatePoolFunc, &stakepool.StakePoolRequest{ProviderType: spenum.Authorizer, ProviderID: authorizerID}, value)
}

// StakeUnlock builds `delete-from-delegate-pool`: from takes its delegate pool out of the authorizer's stake pool.
func (b *Bridge) StakeUnlock(from *sim.Wallet, authorizerID string) *transaction.Transaction {
	return b.call(from, zcnsc.DeleteFromDelegatePoolFunc, &stakepool.StakePoolRequest{ProviderType: spenum.Authorizer, ProviderID: authorizerID}, 0)
}

// CollectRewards builds `collect-rewards` for the authorizer's stake pool: a delegate collects its pool reward,
// the delegate wallet additionally the service charge.
func (b *Bridge) CollectRewards(from *sim.Wallet, authorizerID string) *transaction.Transaction {
	return b.call(from, zcnsc.CollectRewardsFunc, &stakepool.CollectRewardRequest{ProviderId: authorizerID, ProviderType: spenum.Authorizer}, 0)
}

// ---------------------------------------------------------------------------
// config

// UpdateGlobalConfig builds `update-global-config` (accepted from the owner). Keys: min_mint, min_burn,
// min_stake, min_stake_per_delegate, max_stake (all in ZCN as decimal text), percent_authorizers,
// min_authorizers, max_fee (smallest unit), min_lock, max_delegates, health_check_period, owner_id.
func (b *Bridge) UpdateGlobalConfig(from *sim.Wallet, fields map[string]string) *transaction.Transaction {
	return b.call(from, zcnsc.UpdateGlobalConfigFunc, &config.StringMap{Fields: fields}, 0)
}

// ---------------------------------------------------------------------------
// burn

// Burn builds `burn`: from gives value back to the contract for the ethereum address.
func (b *Bridge) Burn(from *sim.Wallet, value currency.Coin, ethereumAddress string) *transaction.Transaction {
	return b.call(from, zcnsc.BurnFunc, &zcnsc.BurnPayload{EthereumAddress: ethereumAddress}, value)
}
