package simzcn

import (
	"math"
	"strings"

	"0chain.net/chaincore/transaction"
	"0chain.net/core/encryption"
	"0chain.net/smartcontract/zcnsc"
	"github.com/0chain/common/core/currency"
	"verifharness/sim"
)

// SigKind selects what an authorizer signature of a mint payload is made of.
type SigKind int

const (
	// SigValid: signature of the authorizer's registered key over exactly the message the contract verifies.
	SigValid SigKind = iota
	// SigOtherAmount / SigOtherNonce / SigOtherReceiver / SigOtherEthTxn: well-formed signature of the
	// authorizer's registered key over a payload that differs in one field.
	SigOtherAmount
	SigOtherNonce
	SigOtherReceiver
	SigOtherEthTxn
	// SigForeignKey: well-formed signature over the exact message, by a key that is registered nowhere,
	// presented under the authorizer's id.
	SigForeignKey
	// SigGarbageText: not hexadecimal at all.
	SigGarbageText
	// SigGarbageHex: hexadecimal of the right length that is not a curve point.
	SigGarbageHex
	// SigEmpty: the empty string.
	SigEmpty
)

// SigKinds lists every kind (for generators).
var SigKinds = []SigKind{SigValid, SigOtherAmount, SigOtherNonce, SigOtherReceiver, SigOtherEthTxn, SigForeignKey, SigGarbageText, SigGarbageHex, SigEmpty}

func (k SigKind) String() string {
	return [...]string{"valid", "other-amount", "other-nonce", "other-receiver", "other-ethtxn", "foreign-key", "garbage-text", "garbage-hex", "empty"}[k]
}

// Genuine tells whether a correct contract must count a signature of this kind.
func (k SigKind) Genuine() bool { return k == SigValid }

// MintMessage is the exact hex hash the contract verifies every authorizer signature against:
// hash("<ethereum txn id>:<amount>:<nonce>:<receiving client id>") (MintPayload.GetStringToSign).
func MintMessage(ethTxnID string, amount currency.Coin, nonce int64, receiver string) string {
	return NewMintPayload(ethTxnID, amount, nonce, receiver).GetStringToSign()
}

// NewMintPayload makes a payload without signatures.
func NewMintPayload(ethTxnID string, amount currency.Coin, nonce int64, receiver string) *zcnsc.MintPayload {
	return &zcnsc.MintPayload{EthereumTxnID: ethTxnID, Amount: amount, Nonce: nonce, ReceivingClientID: receiver}
}

// SignAs signs a message hash with a wallet's key and presents it under the given authorizer id.
func SignAs(w *sim.Wallet, authorizerID, messageHash string) *zcnsc.AuthorizerSignature {
	sig, err := w.Scheme.Sign(messageHash)
	if err != nil {
		panic(err)
	}
	return &zcnsc.AuthorizerSignature{ID: authorizerID, Signature: sig}
}

// Sig produces the signature entry of authorizer a for payload p of the requested kind.
func Sig(a *Authorizer, kind SigKind, p *zcnsc.MintPayload) *zcnsc.AuthorizerSignature {
	msg := MintMessage(p.EthereumTxnID, p.Amount, p.Nonce, p.ReceivingClientID)
	switch kind {
	case SigValid:
		return SignAs(a.Node, a.ID(), msg)
	case SigOtherAmount:
		return SignAs(a.Node, a.ID(), MintMessage(p.EthereumTxnID, p.Amount+1, p.Nonce, p.ReceivingClientID))
	case SigOtherNonce:
		return SignAs(a.Node, a.ID(), MintMessage(p.EthereumTxnID, p.Amount, p.Nonce+1, p.ReceivingClientID))
	case SigOtherReceiver:
		return SignAs(a.Node, a.ID(), MintMessage(p.EthereumTxnID, p.Amount, p.Nonce, encryption.Hash("another receiver|"+p.ReceivingClientID)))
	case SigOtherEthTxn:
		return SignAs(a.Node, a.ID(), MintMessage(p.EthereumTxnID+"-other", p.Amount, p.Nonce, p.ReceivingClientID))
	case SigForeignKey:
		return SignAs(a.Rogue, a.ID(), msg)
	case SigGarbageText:
		return &zcnsc.AuthorizerSignature{ID: a.ID(), Signature: "this is not a signature"}
	case SigGarbageHex:
		return &zcnsc.AuthorizerSignature{ID: a.ID(), Signature: strings.Repeat("ff", 32)}
	case SigEmpty:
		return &zcnsc.AuthorizerSignature{ID: a.ID(), Signature: ""}
	}
	panic("unknown signature kind")
}

// Sigs signs p as the listed authorizers of the bridge, all with the same kind.
func (b *Bridge) Sigs(p *zcnsc.MintPayload, kind SigKind, authorizers ...int) []*zcnsc.AuthorizerSignature {
	var out []*zcnsc.AuthorizerSignature
	for _, i := range authorizers {
		out = append(out, Sig(b.Auths[i], kind, p))
	}
	return out
}

// Mint builds `mint`: the payload (with the caller-chosen signature list) submitted by `from`.
// The contract demands from.ID == p.ReceivingClientID.
func (b *Bridge) Mint(from *sim.Wallet, p *zcnsc.MintPayload) *transaction.Transaction {
	return b.call(from, zcnsc.MintFunc, p, 0)
}

// MintSigned builds `mint` of (ethTxnID, amount, nonce) for `to`, submitted by `to`, validly signed by the
// listed authorizers.
func (b *Bridge) MintSigned(to *sim.Wallet, ethTxnID string, amount currency.Coin, nonce int64, authorizers ...int) *transaction.Transaction {
	p := NewMintPayload(ethTxnID, amount, nonce, to.ID)
	p.Signatures = b.Sigs(p, SigValid, authorizers...)
	return b.Mint(to, p)
}

// SigSpec names one entry of a mint's signature list: which authorizer of the bridge and what kind of signature.
type SigSpec struct {
	Authorizer int
	Kind       SigKind
}

// MintWith builds `mint` of (ethTxnID, amount, nonce) for receiver, submitted by from, with one signature entry
// per spec, in the given order (duplicates allowed).
func (b *Bridge) MintWith(from *sim.Wallet, receiver, ethTxnID string, amount currency.Coin, nonce int64, specs ...SigSpec) *transaction.Transaction {
	p := NewMintPayload(ethTxnID, amount, nonce, receiver)
	for _, sp := range specs {
		p.Signatures = append(p.Signatures, Sig(b.Auths[sp.Authorizer], sp.Kind, p))
	}
	return b.Mint(from, p)
}

// MintThreshold is the number of signatures the contract demands for n registered authorizers:
// percent_authorizers * n rounded half to even.
func MintThreshold(percentAuthorizers float64, n int) int {
	return int(math.RoundToEven(percentAuthorizers * float64(n)))
}
