package simzcn

import (
	"bytes"
	"encoding/hex"
	"fmt"
	"strings"

	"0chain.net/chaincore/block"
	"0chain.net/chaincore/state"
	"0chain.net/chaincore/transaction"
	"0chain.net/core/encryption"
	"0chain.net/smartcontract/multisigsc"
	"github.com/0chain/common/core/currency"
	"github.com/herumi/bls-go-binary/bls"
	"verifharness/sim"
	"verifharness/vkeys"
	"verifharness/vkit"
)

// Signer is one signer of a multi-sig wallet: a BLS threshold share of the wallet's key. The share is a full key
// pair of its own, and the contract identifies the voter by the id of the share's public key, so Wallet is the
// account that sends the votes.
type Signer struct {
	Index       int    // 0-based; the share's BLS id is Index+1
	ThresholdID string // hexadecimal BLS id, as registered in signer_threshold_ids
	Wallet      *sim.Wallet
}

// MultiSig is a t-of-n multi-signature wallet: Owner is the account whose tokens the proposals move.
type MultiSig struct {
	Owner   *sim.Wallet
	T, N    int
	Signers []*Signer
	Fee     currency.Coin
}

func secretOf(w *sim.Wallet) (*bls.SecretKey, error) {
	var buf bytes.Buffer
	if err := w.Scheme.WriteKeys(&buf); err != nil {
		return nil, err
	}
	lines := strings.Split(strings.TrimSpace(buf.String()), "\n")
	if len(lines) != 2 {
		return nil, fmt.Errorf("unexpected key dump of %s", w.Name)
	}
	raw, err := hex.DecodeString(strings.TrimSpace(lines[1]))
	if err != nil {
		return nil, err
	}
	var sk bls.SecretKey
	if err := sk.SetLittleEndian(raw); err != nil {
		return nil, err
	}
	return &sk, nil
}

// NewMultiSig derives the n threshold shares (threshold t) of the owner's key. It does what
// encryption.BLS0GenerateThresholdKeyShares does (share i = polynomial(id i), ids 1..n, constant term = the
// owner's secret key) except that the other t-1 coefficients are derived from VERIF_SEED instead of the
// system's random source, so that signer ids (and with them state paths) are reproducible.
func NewMultiSig(owner *sim.Wallet, t, n int) (*MultiSig, error) {
	if t < 1 || n < 1 {
		return nil, fmt.Errorf("multisig: t=%d n=%d", t, n)
	}
	sk0, err := secretOf(owner)
	if err != nil {
		return nil, err
	}
	poly := make([]bls.SecretKey, t)
	poly[0] = *sk0
	for j := 1; j < t; j++ {
		poly[j] = *vkeys.BLSSecret(vkit.Seed(), "msig-poly|"+owner.ID, j)
	}
	m := &MultiSig{Owner: owner, T: t, N: n}
	for i := 0; i < n; i++ {
		var id bls.ID
		if err := id.SetDecString(fmt.Sprint(i + 1)); err != nil {
			return nil, err
		}
		var sk bls.SecretKey
		if err := sk.Set(poly, &id); err != nil {
			return nil, err
		}
		pub := sk.GetPublicKey().SerializeToHexStr()
		scheme := encryption.NewBLS0ChainScheme()
		if err := scheme.ReadKeys(strings.NewReader(pub + "\n" + hex.EncodeToString(sk.GetLittleEndian()) + "\n")); err != nil {
			return nil, err
		}
		w := &sim.Wallet{Name: fmt.Sprintf("%s-signer%d", owner.Name, i), Scheme: scheme, ID: vkeys.ID(scheme.GetPublicKey()), PublicKey: scheme.GetPublicKey()}
		m.Signers = append(m.Signers, &Signer{Index: i, ThresholdID: id.GetHexString(), Wallet: w})
	}
	return m, nil
}

// Know registers the wallet and its signers with the history's monitors.
func (m *MultiSig) Know(h *sim.History) {
	h.Know(m.Owner.ID, m.Owner.Name)
	for _, s := range m.Signers {
		h.Know(s.Wallet.ID, s.Wallet.Name)
	}
}

// FundSigners sends amount from `from` to every signer account through real transactions, so that the
// signers exist in state and can pay fees.
func (m *MultiSig) FundSigners(h *sim.History, from *sim.Wallet, amount currency.Coin) error {
	m.Know(h)
	for _, s := range m.Signers {
		if _, err := Run(h, "fund "+s.Wallet.Name, h.Tx(from, s.Wallet.ID, amount, m.Fee, transaction.TxnTypeSend, "")); err != nil {
			return err
		}
	}
	return nil
}

// WalletPayload is the registration request of the wallet (callers may alter it for negative tests).
func (m *MultiSig) WalletPayload() *multisigsc.Wallet {
	w := &multisigsc.Wallet{
		ClientID:        m.Owner.ID,
		SignatureScheme: encryption.SignatureSchemeBls0chain,
		PublicKey:       m.Owner.PublicKey,
		NumRequired:     m.T,
	}
	for _, s := range m.Signers {
		w.SignerThresholdIDs = append(w.SignerThresholdIDs, s.ThresholdID)
		w.SignerPublicKeys = append(w.SignerPublicKeys, s.Wallet.PublicKey)
	}
	return w
}

// Register builds `register`, sent by the owner (the contract demands sender == wallet client id,
// 2 <= t <= n <= 20).
func (m *MultiSig) Register(h *sim.History) *transaction.Transaction {
	return m.RegisterRaw(h, m.Owner, m.WalletPayload())
}

// RegisterRaw builds `register` with a caller-chosen sender and payload.
func (m *MultiSig) RegisterRaw(h *sim.History, from *sim.Wallet, w *multisigsc.Wallet) *transaction.Transaction {
	return h.Call(from, sim.MultisigSC, multisigsc.RegisterFuncName, w, 0, m.Fee)
}

// TransferMessage is the exact hex hash every vote signature (and the reconstructed wallet signature)
// covers: hash of the JSON of the transfer {"from","to","amount"}.
func TransferMessage(t state.Transfer) string { return encryption.Hash(t.Encode()) }

// NewVote makes the vote of signer i for the proposal (proposalID, transfer owner -> to of amount).
// valid=false gives a well-formed signature of the same share over a different transfer (amount+1).
func (m *MultiSig) NewVote(proposalID, to string, amount currency.Coin, signer int, valid bool) *multisigsc.Vote {
	tr := state.Transfer{ClientID: m.Owner.ID, ToClientID: to, Amount: amount}
	signed := tr
	if !valid {
		signed.Amount++
	}
	sig, err := m.Signers[signer].Wallet.Scheme.Sign(TransferMessage(signed))
	if err != nil {
		panic(err)
	}
	return &multisigsc.Vote{ProposalID: proposalID, Transfer: tr, Signature: sig}
}

// Vote builds `vote` of signer i (sent from the signer's account, as the contract identifies the voter by it).
func (m *MultiSig) Vote(h *sim.History, proposalID, to string, amount currency.Coin, signer int, valid bool) *transaction.Transaction {
	return m.VoteRaw(h, m.Signers[signer].Wallet, m.NewVote(proposalID, to, amount, signer, valid))
}

// VoteRaw builds `vote` with a caller-chosen sender and vote.
func (m *MultiSig) VoteRaw(h *sim.History, from *sim.Wallet, v *multisigsc.Vote) *transaction.Transaction {
	return h.Call(from, sim.MultisigSC, multisigsc.VoteFuncName, v, 0, m.Fee)
}

// ---------------------------------------------------------------------------
// views

// WalletView is a registered multi-sig wallet.
type WalletView struct {
	Registered         bool
	ClientID           string
	PublicKey          string
	SignatureScheme    string
	NumRequired        int
	SignerThresholdIDs []string
	SignerPublicKeys   []string
}

// ProposalView is a stored proposal.
type ProposalView struct {
	Exists            bool
	ProposalID        string
	From, To          string
	Amount            uint64
	ExpirationDate    int64
	Votes             []string // threshold ids of the signers that voted, in order
	Signatures        []string
	ClientSignature   string // reconstructed wallet signature once executed
	ExecutedInTxnHash string
	Executed          bool
	Expired           bool // relative to the block's creation date (what the contract compares with)
}

// WalletAt reads the registered wallet of the owner on a block.
func (m *MultiSig) WalletAt(s *sim.Sim, b *block.Block) (WalletView, error) {
	w, ok, err := multisigsc.VerifWallet(ReadCtx(s, b), m.Owner.ID)
	if err != nil || !ok {
		return WalletView{}, err
	}
	return WalletView{Registered: true, ClientID: w.ClientID, PublicKey: w.PublicKey, SignatureScheme: w.SignatureScheme, NumRequired: w.NumRequired,
		SignerThresholdIDs: w.SignerThresholdIDs, SignerPublicKeys: w.SignerPublicKeys}, nil
}

// ProposalAt reads a proposal of the wallet on a block.
func (m *MultiSig) ProposalAt(s *sim.Sim, b *block.Block, proposalID string) (ProposalView, error) {
	p, ok, err := multisigsc.VerifGetProposal(ReadCtx(s, b), m.Owner.ID, proposalID)
	if err != nil || !ok {
		return ProposalView{}, err
	}
	return ProposalView{Exists: true, ProposalID: p.ProposalID, From: p.Transfer.ClientID, To: p.Transfer.ToClientID, Amount: uint64(p.Transfer.Amount),
		ExpirationDate: int64(p.ExpirationDate), Votes: p.SignerThresholdIDs, Signatures: p.SignerSignatures, ClientSignature: p.ClientSignature,
		ExecutedInTxnHash: p.ExecutedInTxnHash, Executed: p.ExecutedInTxnHash != "", Expired: b.CreationDate >= p.ExpirationDate}, nil
}

// ProposalLifetime is the number of seconds after which a proposal expires.
const ProposalLifetime = multisigsc.VerifExpirationTime

// WalletSignatureValid tells whether the reconstructed signature of an executed proposal is a valid
// signature of the wallet's own key over the transfer.
func (m *MultiSig) WalletSignatureValid(p ProposalView) bool {
	if p.ClientSignature == "" {
		return false
	}
	ss := encryption.NewBLS0ChainScheme()
	if err := ss.SetPublicKey(m.Owner.PublicKey); err != nil {
		return false
	}
	ok, err := ss.Verify(p.ClientSignature, TransferMessage(state.Transfer{ClientID: p.From, ToClientID: p.To, Amount: currency.Coin(p.Amount)}))
	return ok && err == nil
}
