package simzcn

import (
	"bytes"
	"fmt"
	"sort"
	"strings"
	"time"

	"0chain.net/chaincore/block"
	"0chain.net/smartcontract/stakepool"
	"0chain.net/smartcontract/stakepool/spenum"
	"0chain.net/smartcontract/zcnsc"
	"verifharness/sim"
)

// ConfigView is the bridge's global config node as the contract reads it.
type ConfigView struct {
	MinMint             uint64
	MinBurn             uint64
	MinStake            uint64
	MinStakePerDelegate uint64
	MaxStake            uint64
	MinLock             uint64
	MinAuthorizers      int64
	PercentAuthorizers  float64
	MaxFee              uint64
	OwnerID             string
	MaxDelegates        int
	HealthCheckPeriod   time.Duration
	Cost                map[string]int
}

// DelegateView is one delegate pool of a stake pool.
type DelegateView struct {
	DelegateID string
	Balance    uint64
	Reward     uint64
	Status     string
	StakedAt   int64
}

// StakePoolView summarises an authorizer's stake pool.
type StakePoolView struct {
	Exists bool
	// Bare is set (by StoredStakePoolOf) when the node is stored in the encoding of stakepool.StakePool instead of
	// zcnsc.StakePool's own (which wraps it in a one-field map). The shared lock / unlock code saves the embedded
	// struct, i.e. bare; zcnsc's own getter decodes a bare node as an EMPTY pool.
	Bare           bool
	DelegateWallet string
	ServiceCharge  float64
	MaxDelegates   int
	MinStake       uint64
	Reward         uint64 // uncollected service charge of the delegate wallet
	Killed         bool
	Minter         int
	Delegates      []DelegateView // sorted by delegate id
	TotalStake     uint64
	TotalRewards   uint64 // Reward + sum of the delegates' rewards
}

// AuthorizerView is one authorizer as stored by the contract.
type AuthorizerView struct {
	ID              string
	Registered      bool // the authorizer node exists
	PublicKey       string
	URL             string
	Fee             uint64
	LastHealthCheck int64
	Killed          bool // provider flags of the node
	ShutDown        bool
	Pool            StakePoolView // as the contract's getter reads it; the stake pool outlives `delete-authorizer`
	Stored          StakePoolView // as the bytes in state say (differs from Pool when Stored.Bare)
}

// BridgeView is a read of the bridge's state on a block.
type BridgeView struct {
	Config          ConfigView
	AuthorizerCount int // the counter the contract keeps (used for the mint threshold)
	Authorizers     []AuthorizerView
	MintNonces      int // number of recorded mint nonces
	ContractBalance uint64
}

// Config reads the global config node.
func Config(s *sim.Sim, b *block.Block) (ConfigView, error) {
	gn, err := zcnsc.VerifGlobalNode(ReadCtx(s, b))
	if err != nil {
		return ConfigView{}, err
	}
	c := gn.ZCNSConfig
	cost := map[string]int{}
	for k, v := range c.Cost {
		cost[k] = v
	}
	return ConfigView{
		MinMint: uint64(c.MinMintAmount), MinBurn: uint64(c.MinBurnAmount), MinStake: uint64(c.MinStakeAmount),
		MinStakePerDelegate: uint64(c.MinStakePerDelegate), MaxStake: uint64(c.MaxStakeAmount), MinLock: uint64(c.MinLockAmount),
		MinAuthorizers: c.MinAuthorizers, PercentAuthorizers: c.PercentAuthorizers, MaxFee: uint64(c.MaxFee), OwnerID: c.OwnerId,
		MaxDelegates: c.MaxDelegates, HealthCheckPeriod: c.HealthCheckPeriod, Cost: cost,
	}, nil
}

// AuthorizerCount reads the contract's counter of registered authorizers.
func AuthorizerCount(s *sim.Sim, b *block.Block) (int, error) {
	return zcnsc.VerifAuthorizerCount(ReadCtx(s, b))
}

// StakePoolOf reads the stake pool of an authorizer id exactly as the contract's own getter
// (getStakePool, used by mint, collect-rewards, delete-authorizer, update-authorizer-config) sees it.
func StakePoolOf(s *sim.Sim, b *block.Block, authorizerID string) (StakePoolView, error) {
	sp, ok, err := zcnsc.VerifStakePool(ReadCtx(s, b), authorizerID)
	if err != nil || !ok {
		return StakePoolView{}, err
	}
	return poolView(&sp.StakePool), nil
}

var wrappedPrefix = append([]byte{0x81, 0xa9}, []byte("StakePool")...)

// StoredStakePoolOf decodes the stored stake pool node in whichever of the two encodings it is stored
// (see StakePoolView.Bare): what the bytes in state say, as opposed to what the contract reads.
func StoredStakePoolOf(s *sim.Sim, b *block.Block, authorizerID string) (StakePoolView, error) {
	raw := sim.ViewOf(b).RawNode(stakepool.StakePoolKey(spenum.Authorizer, authorizerID))
	if raw == nil {
		return StakePoolView{}, nil
	}
	if bytes.HasPrefix(raw, wrappedPrefix) {
		sp := zcnsc.NewStakePool()
		if _, err := sp.UnmarshalMsg(raw); err != nil {
			return StakePoolView{}, err
		}
		return poolView(&sp.StakePool), nil
	}
	sp := stakepool.NewStakePool()
	if _, err := sp.UnmarshalMsg(raw); err != nil {
		return StakePoolView{}, err
	}
	v := poolView(sp)
	v.Bare = true
	return v, nil
}

func poolView(sp *stakepool.StakePool) StakePoolView {
	v := StakePoolView{Exists: true, DelegateWallet: sp.Settings.DelegateWallet, ServiceCharge: sp.Settings.ServiceChargeRatio,
		MaxDelegates: sp.Settings.MaxNumDelegates, MinStake: uint64(sp.Settings.MinStake), Reward: uint64(sp.Reward),
		Killed: sp.HasBeenKilled, Minter: int(sp.Minter), TotalRewards: uint64(sp.Reward)}
	ids := make([]string, 0, len(sp.Pools))
	for id := range sp.Pools {
		ids = append(ids, id)
	}
	sort.Strings(ids)
	for _, id := range ids {
		dp := sp.Pools[id]
		v.Delegates = append(v.Delegates, DelegateView{DelegateID: dp.DelegateID, Balance: uint64(dp.Balance), Reward: uint64(dp.Reward),
			Status: dp.Status.String(), StakedAt: int64(dp.StakedAt)})
		v.TotalStake += uint64(dp.Balance)
		v.TotalRewards += uint64(dp.Reward)
	}
	return v
}

// AuthorizerOf reads one authorizer (node and stake pool) by id.
func AuthorizerOf(s *sim.Sim, b *block.Block, id string) (AuthorizerView, error) {
	v := AuthorizerView{ID: id}
	n, ok, err := zcnsc.VerifAuthorizer(ReadCtx(s, b), id)
	if err != nil {
		return v, err
	}
	if ok {
		v.Registered, v.PublicKey, v.URL, v.LastHealthCheck = true, n.PublicKey, n.URL, int64(n.LastHealthCheck)
		v.Killed, v.ShutDown = n.HasBeenKilled, n.HasBeenShutDown
		if n.Config != nil {
			v.Fee = uint64(n.Config.Fee)
		}
	}
	if v.Pool, err = StakePoolOf(s, b, id); err != nil {
		return v, err
	}
	v.Stored, err = StoredStakePoolOf(s, b, id)
	return v, err
}

// BurnNonce reads the burn nonce recorded for an ethereum address (the user node is keyed by the
// ethereum address given in `burn`, not by the burning client).
func BurnNonce(s *sim.Sim, b *block.Block, ethereumAddress string) (int64, error) {
	un, err := zcnsc.VerifUserNode(ReadCtx(s, b), ethereumAddress)
	if err != nil {
		return 0, err
	}
	return un.BurnNonce, nil
}

// Minted tells whether a mint nonce is recorded as minted.
func Minted(s *sim.Sim, b *block.Block, nonce int64) (bool, error) {
	return zcnsc.VerifMintNonceRecorded(ReadCtx(s, b), nonce)
}

// View reads the bridge on the history's current block. The contract keeps no list of authorizers in
// state (only a counter and one node per id), so the list is that of the authorizers the library knows.
func (b *Bridge) View() (*BridgeView, error) { return b.ViewAt(b.H.Cur.B) }

// ViewAt reads the bridge on a block.
func (b *Bridge) ViewAt(blk *block.Block) (*BridgeView, error) {
	s := b.H.S
	var v BridgeView
	var err error
	if v.Config, err = Config(s, blk); err != nil {
		return nil, err
	}
	if v.AuthorizerCount, err = AuthorizerCount(s, blk); err != nil {
		return nil, err
	}
	for _, a := range b.Auths {
		av, err := AuthorizerOf(s, blk, a.ID())
		if err != nil {
			return nil, err
		}
		v.Authorizers = append(v.Authorizers, av)
	}
	if v.MintNonces, err = zcnsc.VerifMintNonceCount(ReadCtx(s, blk)); err != nil {
		return nil, err
	}
	v.ContractBalance = sim.ViewOf(blk).Balance(sim.ZcnSC)
	return &v, nil
}

// Registered counts the known authorizers whose node exists.
func (v *BridgeView) Registered() int {
	n := 0
	for _, a := range v.Authorizers {
		if a.Registered {
			n++
		}
	}
	return n
}

func short(id string) string {
	if len(id) > 8 {
		return id[:8]
	}
	return id
}

// String renders the view.
func (v *BridgeView) String() string {
	var sb strings.Builder
	c := v.Config
	fmt.Fprintf(&sb, "zcnsc: balance=%d authorizers(count)=%d mint-nonces=%d\n", v.ContractBalance, v.AuthorizerCount, v.MintNonces)
	fmt.Fprintf(&sb, "  config: min_mint=%d min_burn=%d min_stake=%d min_stake_per_delegate=%d max_stake=%d percent_authorizers=%v min_authorizers=%d max_fee=%d max_delegates=%d health_check_period=%v owner=%s\n",
		c.MinMint, c.MinBurn, c.MinStake, c.MinStakePerDelegate, c.MaxStake, c.PercentAuthorizers, c.MinAuthorizers, c.MaxFee, c.MaxDelegates, c.HealthCheckPeriod, short(c.OwnerID))
	for _, a := range v.Authorizers {
		fmt.Fprintf(&sb, "  authorizer %s registered=%v fee=%d last_health_check=%d killed=%v | pool exists=%v delegate_wallet=%s charge=%v min_stake=%d reward=%d killed=%v stake=%d\n",
			short(a.ID), a.Registered, a.Fee, a.LastHealthCheck, a.Killed, a.Pool.Exists, short(a.Pool.DelegateWallet), a.Pool.ServiceCharge, a.Pool.MinStake, a.Pool.Reward, a.Pool.Killed, a.Pool.TotalStake)
		for _, d := range a.Pool.Delegates {
			fmt.Fprintf(&sb, "    delegate %s balance=%d reward=%d status=%s\n", short(d.DelegateID), d.Balance, d.Reward, d.Status)
		}
		if a.Stored.Bare {
			fmt.Fprintf(&sb, "    STORED BARE (not readable by zcnsc): delegate_wallet=%s charge=%v min_stake=%d reward=%d stake=%d delegates=%d\n",
				short(a.Stored.DelegateWallet), a.Stored.ServiceCharge, a.Stored.MinStake, a.Stored.Reward, a.Stored.TotalStake, len(a.Stored.Delegates))
		}
	}
	return sb.String()
}
