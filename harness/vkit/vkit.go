// Package vkit holds the helpers shared by every check: statistics that become
// the evidence file, the known-findings registry, seed handling and the
// TestMain wrapper that keeps test processes from writing under /repo.
//
// It imports only the standard library so that in-package overlay tests of any
// 0chain package can use it without import cycles.
package vkit

import (
	"encoding/json"
	"fmt"
	"hash/fnv"
	"os"
	"sort"
	"strconv"
	"sync"
	"testing"
)

// Stats collects what one property's check explored in this process.
type Stats struct {
	mu          sync.Mutex
	Property    string
	Rule        string
	evaluations int64
	nontrivial  int64
	fps         map[uint64]struct{}
	classes     map[string]int64
	samples     []interface{}
	ntSamples   []interface{}
	known       map[string]*knownHit
	assumptions map[string]struct{}
	extra       map[string]interface{}
}

type knownHit struct {
	What  string `json:"what"`
	Count int64  `json:"count"`
}

var (
	regMu    sync.Mutex
	registry = map[string]*Stats{}
)

// For returns the (process-wide) collector of a property.
func For(property string) *Stats {
	regMu.Lock()
	defer regMu.Unlock()
	s, ok := registry[property]
	if !ok {
		s = &Stats{Property: property, fps: map[uint64]struct{}{}, classes: map[string]int64{},
			known: map[string]*knownHit{}, assumptions: map[string]struct{}{}, extra: map[string]interface{}{}}
		registry[property] = s
	}
	return s
}

// SetRule states how cases are generated and what makes one non-trivial.
func (s *Stats) SetRule(rule string) *Stats {
	s.mu.Lock()
	s.Rule = rule
	s.mu.Unlock()
	return s
}

// Case counts one generated case.
func (s *Stats) Case() {
	s.mu.Lock()
	s.evaluations++
	s.mu.Unlock()
}

// Cases counts n generated cases.
func (s *Stats) Cases(n int) {
	s.mu.Lock()
	s.evaluations += int64(n)
	s.mu.Unlock()
}

// NonTrivial records a case that is non-trivial by the property's rule; parts
// identify the case (its fingerprint decides distinctness).
func (s *Stats) NonTrivial(parts ...interface{}) {
	fp := FP(parts...)
	s.mu.Lock()
	s.nontrivial++
	if len(s.fps) < 400000 {
		s.fps[fp] = struct{}{}
	}
	s.mu.Unlock()
}

// Class increments a histogram bucket.
func (s *Stats) Class(name string) {
	s.mu.Lock()
	s.classes[name]++
	s.mu.Unlock()
}

// ClassN adds n to a histogram bucket.
func (s *Stats) ClassN(name string, n int) {
	s.mu.Lock()
	s.classes[name] += int64(n)
	s.mu.Unlock()
}

// Sample keeps up to 3 arbitrary and 4 non-trivial rendered cases.
func (s *Stats) Sample(nontrivial bool, v interface{}) {
	s.mu.Lock()
	defer s.mu.Unlock()
	if nontrivial {
		if len(s.ntSamples) < 4 {
			s.ntSamples = append(s.ntSamples, v)
		}
		return
	}
	if len(s.samples) < 2 {
		s.samples = append(s.samples, v)
	}
}

// WantSample tells whether another sample of that kind would be kept (so the
// caller can skip rendering).
func (s *Stats) WantSample(nontrivial bool) bool {
	s.mu.Lock()
	defer s.mu.Unlock()
	if nontrivial {
		return len(s.ntSamples) < 4
	}
	return len(s.samples) < 2
}

// Assume records an assumption the oracle makes (goes to evidence).
func (s *Stats) Assume(text string) {
	s.mu.Lock()
	s.assumptions[text] = struct{}{}
	s.mu.Unlock()
}

// Extra stores an additional coverage key.
func (s *Stats) Extra(key string, v interface{}) {
	s.mu.Lock()
	s.extra[key] = v
	s.mu.Unlock()
}

// ExtraAdd adds n to an integer coverage key.
func (s *Stats) ExtraAdd(key string, n int64) {
	s.mu.Lock()
	cur, _ := s.extra[key].(int64)
	s.extra[key] = cur + n
	s.mu.Unlock()
}

// ---------------------------------------------------------------------------
// known findings

type finding struct {
	Property string `json:"property"`
	Key      string `json:"key"`
	What     string `json:"what"`
	Status   string `json:"status"`
	Commit   string `json:"commit,omitempty"`
}

var (
	knownOnce sync.Once
	knownOpen map[string]finding
)

func loadKnown() {
	knownOpen = map[string]finding{}
	path := os.Getenv("VERIF_KNOWN_FINDINGS")
	if path == "" {
		path = "/verif/known_findings.json"
	}
	b, err := os.ReadFile(path)
	if err != nil {
		return
	}
	var doc struct {
		Findings []finding `json:"findings"`
	}
	if json.Unmarshal(b, &doc) != nil {
		return
	}
	for _, f := range doc.Findings {
		if f.Status == "open" {
			knownOpen[f.Property+"|"+f.Key] = f
		}
	}
}

// Known reports whether (property,key) is listed as an open known finding. If
// it is, the hit is counted and the driver prints the KNOWN-FINDING line.
func (s *Stats) Known(key string) bool {
	knownOnce.Do(loadKnown)
	f, ok := knownOpen[s.Property+"|"+key]
	if !ok {
		return false
	}
	s.mu.Lock()
	h := s.known[key]
	if h == nil {
		h = &knownHit{What: f.What}
		s.known[key] = h
	}
	h.Count++
	s.mu.Unlock()
	return true
}

// IsKnown is Known without counting (used to exclude a class from generation).
func (s *Stats) IsKnown(key string) bool {
	knownOnce.Do(loadKnown)
	_, ok := knownOpen[s.Property+"|"+key]
	return ok
}

// ---------------------------------------------------------------------------
// seeds, tiers, fingerprints

// Seed returns VERIF_SEED (0 when unset).
func Seed() uint64 {
	v, _ := strconv.ParseUint(os.Getenv("VERIF_SEED"), 10, 64)
	return v
}

// Thorough reports whether the thorough tier is running.
func Thorough() bool { return os.Getenv("VERIF_TIER") == "thorough" }

// Scale picks a budget by tier.
func Scale(quick, thorough int) int {
	if Thorough() {
		return thorough
	}
	return quick
}

// EnvInt reads an integer parameter passed by the driver.
func EnvInt(name string, def int) int {
	if v, err := strconv.Atoi(os.Getenv(name)); err == nil {
		return v
	}
	return def
}

// FP fingerprints a case description.
func FP(parts ...interface{}) uint64 {
	h := fnv.New64a()
	for _, p := range parts {
		fmt.Fprintf(h, "%v\x00", p)
	}
	return h.Sum64()
}

// ---------------------------------------------------------------------------
// output

type statsOut struct {
	Property     string                 `json:"property"`
	Rule         string                 `json:"rule"`
	Evaluations  int64                  `json:"evaluations"`
	Nontrivial   int64                  `json:"nontrivial"`
	Fingerprints []uint64               `json:"fingerprints"`
	Classes      map[string]int64       `json:"classes"`
	Samples      []interface{}          `json:"samples"`
	Known        map[string]*knownHit   `json:"known"`
	Assumptions  []string               `json:"assumptions"`
	Extra        map[string]interface{} `json:"extra"`
}

// Flush writes all collectors to $VERIF_STATS_OUT (a file path); a no-op when
// the variable is unset.
func Flush() {
	path := os.Getenv("VERIF_STATS_OUT")
	if path == "" {
		return
	}
	regMu.Lock()
	defer regMu.Unlock()
	var all []statsOut
	for _, s := range registry {
		s.mu.Lock()
		o := statsOut{Property: s.Property, Rule: s.Rule, Evaluations: s.evaluations, Nontrivial: s.nontrivial,
			Classes: s.classes, Known: s.known, Extra: s.extra}
		for fp := range s.fps {
			o.Fingerprints = append(o.Fingerprints, fp)
		}
		sort.Slice(o.Fingerprints, func(i, j int) bool { return o.Fingerprints[i] < o.Fingerprints[j] })
		o.Samples = append(append([]interface{}{}, s.ntSamples...), s.samples...)
		for a := range s.assumptions {
			o.Assumptions = append(o.Assumptions, a)
		}
		sort.Strings(o.Assumptions)
		s.mu.Unlock()
		all = append(all, o)
	}
	sort.Slice(all, func(i, j int) bool { return all[i].Property < all[j].Property })
	b, err := json.Marshal(all)
	if err != nil {
		fmt.Fprintf(os.Stderr, "vkit: cannot encode stats: %v\n", err)
		return
	}
	tmp := path + ".tmp"
	if err := os.WriteFile(tmp, b, 0o644); err != nil {
		fmt.Fprintf(os.Stderr, "vkit: cannot write stats: %v\n", err)
		return
	}
	_ = os.Rename(tmp, path)
}

// Main is the TestMain body of every check package: it moves the process out
// of the source tree (several 0chain helpers write ./log and ./data relative to
// the working directory), runs the tests and flushes the statistics.
func Main(m *testing.M) {
	if wd := os.Getenv("VERIF_WORKDIR"); wd != "" {
		_ = os.MkdirAll(wd, 0o755)
		_ = os.Chdir(wd)
	} else if d, err := os.MkdirTemp("", "verif-wd-"); err == nil {
		_ = os.Chdir(d)
		defer os.RemoveAll(d)
	}
	code := m.Run()
	Flush()
	os.Exit(code)
}

// Violation formats the message every check uses to report a violation; the
// driver looks for the marker to tell property failures from harness errors.
func Violation(property, key, format string, args ...interface{}) string {
	return fmt.Sprintf("VERIF-VIOLATION property=%s key=%s :: %s", property, key, fmt.Sprintf(format, args...))
}
