package vkit
