package simmisc

import (
	"fmt"
	"testing"
	"time"

	"0chain.net/chaincore/transaction"
	"github.com/0chain/common/core/currency"
	"verifharness/sim"
	"verifharness/vkit"
)

func TestMain(m *testing.M) { vkit.Main(m) }

func boot(t *testing.T) *sim.Sim {
	t.Helper()
	s, err := sim.Boot(sim.Options{})
	if err != nil {
		t.Fatalf("VERIF-HARNESS-ERROR boot: %v", err)
	}
	return s
}

func describe(o sim.Outcome) string {
	switch {
	case o.Rejected:
		return "rejected: " + o.Err.Error()
	case o.Failed:
		return "failed: " + o.Output
	}
	return "ok"
}

// mustOK executes txn and requires outcome ok.
func mustOK(t *testing.T, h *sim.History, what string, txn *transaction.Transaction) sim.Outcome {
	t.Helper()
	o, err := h.Do(txn)
	if err != nil {
		t.Fatalf("%s: monitor: %v", what, err)
	}
	if o.Rejected || o.Failed {
		t.Fatalf("%s: want ok, got %s\ninput: %s", what, describe(o), txn.TransactionData)
	}
	return o
}

// mustFail executes txn and requires a chargeable failure (applied, Status TxnError).
func mustFail(t *testing.T, h *sim.History, what string, txn *transaction.Transaction) sim.Outcome {
	t.Helper()
	o, err := h.Do(txn)
	if err != nil {
		t.Fatalf("%s: monitor: %v", what, err)
	}
	if !o.Failed {
		t.Fatalf("%s: want failed, got %s", what, describe(o))
	}
	return o
}

func printPool(l *Lib, label, poolID string) *VestingPool {
	p, err := l.VestingPool(poolID)
	if err != nil {
		fmt.Printf("  pool[%s]: %v\n", label, err)
		return nil
	}
	fmt.Printf("  pool[%s] now=%d owner=%s balance=%d start=%d expire=%d excess=%d desc=%q\n", label, l.H.Now, l.H.Label(p.ClientID), p.Balance, p.StartTime, p.ExpireAt, p.Excess, p.Description)
	for _, d := range p.Destinations {
		fmt.Printf("     dest %s amount=%d vested=%d earned=%d last=%d move=%d\n", l.H.Label(d.ID), d.Amount, d.Vested, d.Earned, d.Last, d.Move)
	}
	return p
}

func TestSmokeVesting(t *testing.T) {
	s := boot(t)
	h := s.NewHistory(s.Genesis)
	l := New(h)
	owner, d1, d2 := s.Clients[0], s.Clients[1], s.Clients[2]
	v := func() *sim.View { return sim.ViewOf(h.Cur.B) }

	conf, err := l.VestingConfig()
	if err != nil {
		t.Fatalf("vesting config: %v", err)
	}
	fmt.Printf("vesting config: %+v\n", *conf)

	const a1, a2, extra = currency.Coin(6e10), currency.Coin(3e10), currency.Coin(1e10)
	b0, b1, b2 := v().Balance(owner.ID), v().Balance(d1.ID), v().Balance(d2.ID)
	add := l.VestingAdd(owner, VestingAddReq{
		Description:  "smoke",
		Duration:     10 * time.Minute,
		Destinations: []VestingDest{{ID: d1.ID, Amount: a1}, {ID: d2.ID, Amount: a2}},
	}, a1+a2+extra)
	mustOK(t, h, "add", add)
	pid := VestingPoolID(add)
	p := printPool(l, "after add", pid)
	if p == nil || p.Balance != uint64(a1+a2+extra) || p.ClientID != owner.ID || len(p.Destinations) != 2 || p.Excess != uint64(extra) {
		t.Fatalf("unexpected pool after add: %+v", p)
	}
	if p.ExpireAt-p.StartTime != 600 || p.StartTime != int64(add.CreationDate) {
		t.Fatalf("unexpected pool period: %+v", p)
	}
	if got := v().Balance(owner.ID); got != b0-uint64(a1+a2+extra) {
		t.Fatalf("owner balance after add: %d want %d", got, b0-uint64(a1+a2+extra))
	}
	pools, err := l.VestingClientPools(owner.ID)
	if err != nil || len(pools) != 1 || pools[0] != pid {
		t.Fatalf("client pools: %v %v (want [%s])", pools, err, pid)
	}

	// a quarter of the period passes; trigger pays both destinations a quarter
	h.NextBlock(10, 150)
	mustOK(t, h, "trigger", l.VestingTrigger(owner, pid))
	p = printPool(l, "after trigger @150s", pid)
	if p.Destinations[0].Vested != uint64(a1)/4 || p.Destinations[1].Vested != uint64(a2)/4 {
		t.Fatalf("unexpected vested after trigger: %+v", p.Destinations)
	}
	if v().Balance(d1.ID) != b1+uint64(a1)/4 || v().Balance(d2.ID) != b2+uint64(a2)/4 {
		t.Fatalf("destination balances after trigger: %d %d", v().Balance(d1.ID), v().Balance(d2.ID))
	}

	// a destination unlocks for itself after another 150 s (half of the period in total)
	h.NextBlock(10, 150)
	mustOK(t, h, "unlock by destination", l.VestingUnlock(d1, pid))
	p = printPool(l, "after d1 unlock @300s", pid)
	if p.Destinations[0].Vested != uint64(a1)/2 || p.Destinations[1].Vested != uint64(a2)/4 {
		t.Fatalf("unexpected vested after unlock: %+v", p.Destinations)
	}
	// a second unlock at the same time moves nothing and fails
	o := mustFail(t, h, "second unlock by destination", l.VestingUnlock(d1, pid))
	fmt.Println("  repeated unlock:", o.Output)

	// the owner takes the excess back
	mustOK(t, h, "unlock by owner", l.VestingUnlock(owner, pid))
	p = printPool(l, "after owner unlock", pid)
	if p.Excess != 0 {
		t.Fatalf("excess after owner unlock: %d", p.Excess)
	}

	// stop d2: it is paid up to now (half) and removed
	mustOK(t, h, "stop", l.VestingStop(owner, pid, d2.ID))
	p = printPool(l, "after stop d2", pid)
	if len(p.Destinations) != 1 || p.Destinations[0].ID != d1.ID {
		t.Fatalf("destinations after stop: %+v", p.Destinations)
	}
	if got := v().Balance(d2.ID); got != b2+uint64(a2)/2 {
		t.Fatalf("d2 balance after stop: %d want %d", got, b2+uint64(a2)/2)
	}

	// delete at 3/4 of the period: d1 gets what vested, the owner the rest
	h.NextBlock(10, 150)
	mustOK(t, h, "delete", l.VestingDelete(owner, pid))
	if p, err := l.VestingPool(pid); err == nil {
		t.Fatalf("pool still present after delete: %+v", p)
	} else {
		fmt.Println("  pool after delete:", err)
	}
	pools, err = l.VestingClientPools(owner.ID)
	if err != nil || len(pools) != 0 {
		t.Fatalf("client pools after delete: %v %v", pools, err)
	}
	if got := v().Balance(d1.ID); got != b1+uint64(a1)*3/4 {
		t.Fatalf("d1 balance after delete: %d want %d", got, b1+uint64(a1)*3/4)
	}
	if got, want := v().Balance(owner.ID), b0-uint64(a1)*3/4-uint64(a2)/2; got != want {
		t.Fatalf("owner balance after delete: %d want %d", got, want)
	}
	fmt.Printf("vesting: owner %d -> %d, d1 %d -> %d, d2 %d -> %d, contract %d\n", b0, v().Balance(owner.ID), b1, v().Balance(d1.ID), b2, v().Balance(d2.ID), v().Balance(sim.VestingSC))
	for _, line := range h.Render(0) {
		fmt.Println("  ", line)
	}
}

func TestSmokeFaucet(t *testing.T) {
	s := boot(t)
	h := s.NewHistory(s.Genesis)
	l := New(h)
	user, stranger := s.Clients[3], s.Clients[4]
	v := func() *sim.View { return sim.ViewOf(h.Cur.B) }

	g, err := l.FaucetGlobal()
	if err != nil {
		t.Fatalf("faucet global: %v", err)
	}
	fmt.Printf("faucet global: %+v\n", *g)
	if _, ok, err := l.FaucetUser(user.ID); ok || err != nil {
		t.Fatalf("user node before pour: ok=%v err=%v", ok, err)
	}
	ub, fb := v().Balance(user.ID), v().Balance(sim.FaucetSC)

	mustOK(t, h, "pour #1 (value 0 -> pour_amount)", l.FaucetPour(user, 0))
	if got := v().Balance(user.ID); got != ub+g.PourAmount {
		t.Fatalf("balance after pour #1: %d want %d", got, ub+g.PourAmount)
	}
	h.NextBlock(1, 5)
	const asked = currency.Coin(3e10)
	mustOK(t, h, "pour #2 (value 3 ZCN)", l.FaucetPour(user, asked))
	if got := v().Balance(user.ID); got != ub+g.PourAmount+uint64(asked) {
		t.Fatalf("balance after pour #2: %d want %d", got, ub+g.PourAmount+uint64(asked))
	}
	u, ok, err := l.FaucetUser(user.ID)
	if err != nil || !ok || u.Used != g.PourAmount+uint64(asked) {
		t.Fatalf("user node after two pours: %+v ok=%v err=%v", u, ok, err)
	}
	g2, _ := l.FaucetGlobal()
	fmt.Printf("after pours: user %+v; global used=%d start=%d\n", *u, g2.Used, g2.StartTime)
	if g2.Used != u.Used {
		t.Fatalf("global used %d != user used %d", g2.Used, u.Used)
	}

	const refill = currency.Coin(5e10)
	mustOK(t, h, "refill", l.FaucetRefill(user, refill))
	if got, want := v().Balance(sim.FaucetSC), fb-g.PourAmount-uint64(asked)+uint64(refill); got != want {
		t.Fatalf("faucet balance after refill: %d want %d", got, want)
	}

	mustOK(t, h, "update-settings by owner", l.FaucetUpdateSettings(s.Owner, map[string]string{"pour_amount": "2"}))
	o := mustFail(t, h, "update-settings by stranger", l.FaucetUpdateSettings(stranger, map[string]string{"pour_amount": "3"}))
	fmt.Println("  stranger:", o.Output)
	g3, _ := l.FaucetGlobal()
	if g3.PourAmount != 2e10 {
		t.Fatalf("pour amount after update: %d", g3.PourAmount)
	}
	m, err := l.Settings(FaucetSettings)
	if err != nil || m["pour_amount"] != "2" {
		t.Fatalf("faucet settings view: %v %v", m, err)
	}
	fmt.Println("faucet settings:", m)
	for _, line := range h.Render(0) {
		fmt.Println("  ", line)
	}
}

// applySpec executes the example of one spec in h (plus the commit where needed) and checks the view.
func applySpec(t *testing.T, s *sim.Sim, h *sim.History, tg Target, sp SettingSpec) {
	t.Helper()
	l := New(h)
	what := fmt.Sprintf("%s {%s: %s}", tg, sp.Name, sp.Example)
	before, err := l.Settings(tg)
	if err != nil {
		t.Fatalf("%s: view: %v", what, err)
	}
	if sp.Immutable {
		mustFail(t, h, what+" (immutable)", l.UpdateSettings(tg, s.Owner, sp.Fields()))
		after, _ := l.Settings(tg)
		if after[sp.Name] != before[sp.Name] {
			t.Fatalf("%s: immutable setting changed %q -> %q", what, before[sp.Name], after[sp.Name])
		}
		return
	}
	if before[sp.Name] == sp.View {
		t.Errorf("%s: example equals the shipped value %q, the update would not be visible", what, sp.View)
	}
	mustOK(t, h, what, l.UpdateSettings(tg, s.Owner, sp.Fields()))
	if tg.NeedsCommit() {
		mid, _ := l.Settings(tg)
		if mid[sp.Name] != before[sp.Name] {
			t.Fatalf("%s: visible before commit: %q", what, mid[sp.Name])
		}
		st, err := l.StorageStagedSettings()
		if err != nil || st[sp.Name] != sp.Example {
			t.Fatalf("%s: staged %v %v", what, st, err)
		}
		mustOK(t, h, what+" commit", l.StorageCommitSettings(s.Clients[5]))
	}
	after, err := l.Settings(tg)
	if err != nil {
		t.Fatalf("%s: view after: %v", what, err)
	}
	if after[sp.Name] != sp.View {
		t.Fatalf("%s: view shows %q, want %q (before %q)", what, after[sp.Name], sp.View, before[sp.Name])
	}
	for k, vv := range after {
		if _, touched := sp.Fields()[k]; !touched && before[k] != vv {
			t.Fatalf("%s: untouched setting %s changed %q -> %q", what, k, before[k], vv)
		}
	}
}

// One valid single-key update per settings function by the owner, a refused one by a stranger.
func TestSmokeSettings(t *testing.T) {
	s := boot(t)
	h := s.NewHistory(s.Genesis)
	l := New(h)
	pick := map[Target]string{
		MinerSettings:   "max_n",
		MinerGlobals:    "server_chain.block.max_block_cost",
		StorageSettings: "max_read_price",
		FaucetSettings:  "periodic_limit",
		ZcnSettings:     "min_stake",
		VestingSettings: "max_destinations",
	}
	for _, tg := range Targets() {
		m, err := l.Settings(tg)
		if err != nil {
			t.Fatalf("%s: view: %v", tg, err)
		}
		fmt.Printf("%s: %d settings\n", tg, len(m))
		for _, k := range SortedNames(m) {
			fmt.Printf("    %s = %s\n", k, m[k])
		}
		var sp *SettingSpec
		specs := Specs(tg)
		for i := range specs {
			if specs[i].Name == pick[tg] {
				sp = &specs[i]
			}
		}
		if sp == nil || len(sp.With) != 0 {
			t.Fatalf("%s: no single-key spec %q", tg, pick[tg])
		}
		o := mustFail(t, h, tg.String()+" by stranger", l.UpdateSettings(tg, s.Clients[6], sp.Fields()))
		fmt.Printf("  stranger: %s\n", o.Output)
		applySpec(t, s, h, tg, *sp)
		h.NextBlock(1, 2)
	}
	for _, line := range h.Render(0) {
		fmt.Println("  ", line)
	}
}

// Every listed setting name: the table covers exactly the names the contract shows, every example is accepted on
// the shipped configuration (each on its own fork of the genesis state) and shows up in the view as documented.
func TestAllSettingSpecs(t *testing.T) {
	s := boot(t)
	for _, tg := range Targets() {
		base := New(s.NewHistory(s.Genesis))
		view, err := base.Settings(tg)
		if err != nil {
			t.Fatalf("%s: view: %v", tg, err)
		}
		specs := Specs(tg)
		names := map[string]bool{}
		n, imm := 0, 0
		for _, sp := range specs {
			names[sp.Name] = true
			if sp.Example == "" || sp.Kind == "" || sp.Kind == "?" {
				t.Errorf("%s: incomplete spec %+v", tg, sp)
				continue
			}
			if _, ok := view[sp.Name]; !ok {
				if tg == MinerGlobals && sp.Immutable {
					continue // dbs.events.* are not stored
				}
				t.Errorf("%s: spec %s is not in the contract's view", tg, sp.Name)
				continue
			}
			h := s.NewHistory(s.Genesis)
			applySpec(t, s, h, tg, sp)
			n++
			if sp.Immutable {
				imm++
			}
		}
		for k := range view {
			if !names[k] {
				t.Errorf("%s: the view has %s, the spec table does not", tg, k)
			}
		}
		fmt.Printf("%s: %d specs checked (%d immutable), view has %d names\n", tg, n, imm, len(view))
	}
}

// Behaviours of the settings functions that the documentation of this package states; each on a fork of genesis.
func TestSettingsObservations(t *testing.T) {
	s := boot(t)

	// zcnsc: with the shipped min_stake 0 an update that does not raise min_stake fails validation
	h := s.NewHistory(s.Genesis)
	l := New(h)
	o := mustFail(t, h, "zcnsc max_delegates alone", l.ZcnUpdateGlobalConfig(s.Owner, map[string]string{"max_delegates": "20"}))
	fmt.Println("zcnsc single key without min_stake:", o.Output)
	o = mustFail(t, h, "zcnsc cost.mint", l.ZcnUpdateGlobalConfig(s.Owner, map[string]string{"cost.mint": "5", "min_stake": "1"}))
	fmt.Println("zcnsc cost.mint:", o.Output)

	// vestingsc: no validation of the result
	h = s.NewHistory(s.Genesis)
	l = New(h)
	mustOK(t, h, "vestingsc max_destinations 0", l.VestingUpdateSettings(s.Owner, map[string]string{"max_destinations": "0", "min_duration": "-1s"}))
	m, _ := l.Settings(VestingSettings)
	fmt.Println("vestingsc accepts invalid configuration: max_destinations =", m["max_destinations"], "min_duration =", m["min_duration"])
	if m["max_destinations"] != "0" {
		t.Fatalf("vesting view: %v", m)
	}

	// storagesc: an invalid value is accepted at staging, then every commit fails until the owner overrides the key
	h = s.NewHistory(s.Genesis)
	l = New(h)
	mustOK(t, h, "storagesc stage invalid", l.StorageUpdateSettings(s.Owner, map[string]string{"max_delegates": "0"}))
	o = mustFail(t, h, "storagesc commit invalid", l.StorageCommitSettings(s.Clients[1]))
	fmt.Println("storagesc commit of an invalid staged value:", o.Output)
	mustOK(t, h, "storagesc stage other key", l.StorageUpdateSettings(s.Owner, map[string]string{"max_read_price": "5"}))
	o = mustFail(t, h, "storagesc commit still invalid", l.StorageCommitSettings(s.Clients[1]))
	mustOK(t, h, "storagesc override", l.StorageUpdateSettings(s.Owner, map[string]string{"max_delegates": "100"}))
	mustOK(t, h, "storagesc commit", l.StorageCommitSettings(s.Clients[1]))
	m, _ = l.Settings(StorageSettings)
	st, _ := l.StorageStagedSettings()
	fmt.Println("storagesc after commit: max_delegates =", m["max_delegates"], "max_read_price =", m["max_read_price"], "staged (never cleared) =", st)
	if m["max_delegates"] != "100" || m["max_read_price"] != "5" || len(st) != 2 {
		t.Fatalf("storage view %v staged %v", m, st)
	}
	// unknown key / bad value are refused at staging already
	o = mustFail(t, h, "storagesc unknown key", l.StorageUpdateSettings(s.Owner, map[string]string{"no_such": "1"}))
	fmt.Println("storagesc unknown key:", o.Output)

	// storagesc after the demeter hard fork: update_settings writes the merged configuration at once, unvalidated
	h = s.NewHistory(s.Genesis)
	l = New(h)
	mustOK(t, h, "add_hardfork demeter", l.MinerAddHardfork(s.Owner, "demeter", h.Round+1))
	h.NextBlock(1, 2)
	mustOK(t, h, "storagesc update after demeter", l.StorageUpdateSettings(s.Owner, map[string]string{"max_delegates": "0"}))
	m, _ = l.Settings(StorageSettings)
	fmt.Println("storagesc after demeter: update_settings alone gives max_delegates =", m["max_delegates"])
	if m["max_delegates"] != "0" {
		t.Fatalf("storage view after demeter: %v", m["max_delegates"])
	}

	// update_globals: immutable names, bad type, version counter
	h = s.NewHistory(s.Genesis)
	l = New(h)
	v0, stored, _ := l.MinerGlobalsVersion()
	o = mustFail(t, h, "globals immutable", l.MinerUpdateGlobals(s.Owner, map[string]string{"server_chain.owner": s.Clients[0].ID}))
	fmt.Println("update_globals immutable:", o.Output)
	o = mustFail(t, h, "globals bad type", l.MinerUpdateGlobals(s.Owner, map[string]string{"server_chain.block.max_block_cost": "x"}))
	fmt.Println("update_globals bad type:", o.Output)
	mustOK(t, h, "globals ok", l.MinerUpdateGlobals(s.Owner, map[string]string{"server_chain.block.max_block_cost": "7"}))
	v1, _, _ := l.MinerGlobalsVersion()
	fmt.Printf("update_globals version %d (stored=%v) -> %d; immutable names: %d\n", v0, stored, v1, len(ImmutableNames(MinerGlobals)))
	if v1 != v0+1 {
		t.Fatalf("globals version %d -> %d", v0, v1)
	}
}
