package simmisc

import (
	"0chain.net/chaincore/transaction"
	"0chain.net/smartcontract/faucetsc"
	"github.com/0chain/common/core/currency"
	"verifharness/sim"
)

// FaucetPour builds faucetsc "pour". The contract pays pour_amount (shipped 1 ZCN) unless 0 < value < max_pour_amount
// (shipped 100 ZCN), in which case it pays `value`. The chain does not move the value of a contract call by itself
// (only the contract's own transfers are applied), so the sender is NOT charged `value`. The limit checks
// (periodic / global, faucet balance) are made with pour_amount, not with the amount really paid; the amount really
// paid is what is added to the user's and the global `used`.
func (l *Lib) FaucetPour(from *sim.Wallet, value currency.Coin) *transaction.Transaction {
	return l.Call(from, sim.FaucetSC, "pour", nil, value)
}

// FaucetRefill builds faucetsc "refill": the contract adds a transfer sender -> faucet of the transaction value.
func (l *Lib) FaucetRefill(from *sim.Wallet, value currency.Coin) *transaction.Transaction {
	return l.Call(from, sim.FaucetSC, "refill", nil, value)
}

// FaucetUpdateSettings builds faucetsc "update-settings" (owner_id of the faucet config only).
func (l *Lib) FaucetUpdateSettings(from *sim.Wallet, fields map[string]string) *transaction.Transaction {
	return l.UpdateSettings(FaucetSettings, from, fields)
}

// Views (types come from the shim compiled into package faucetsc).
type (
	FaucetGlobal = faucetsc.VerifMiscGlobal
	FaucetUser   = faucetsc.VerifMiscUser
)

// FaucetGlobal reads the stored global node. Used/StartTime are the stored values: the contract resets its
// in-memory copy (Used=0, StartTime=txn time) when txn time - StartTime >= global_reset and stores that copy only
// when the called function saves the node (pour ok, refill ok, update-settings ok).
func (l *Lib) FaucetGlobal() (*FaucetGlobal, error) {
	return faucetsc.VerifMiscGetGlobal(l.ctx())
}

// FaucetUser reads the stored node of a client; ok=false when the client has no node (never poured successfully).
func (l *Lib) FaucetUser(clientID string) (u *FaucetUser, ok bool, err error) {
	return faucetsc.VerifMiscGetUser(l.ctx(), clientID)
}
