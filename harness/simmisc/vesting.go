package simmisc

import (
	"time"

	"0chain.net/chaincore/transaction"
	"0chain.net/core/common"
	"0chain.net/smartcontract/vestingsc"
	"github.com/0chain/common/core/currency"
	"verifharness/sim"
)

// VestingDest is one destination of an add request.
type VestingDest struct {
	ID     string        `json:"id"`
	Amount currency.Coin `json:"amount"`
	// Vested / Last / Move can be injected by a client; the contract resets them (destinations.start).
	Vested currency.Coin    `json:"vested,omitempty"`
	Last   common.Timestamp `json:"last,omitempty"`
	Move   common.Timestamp `json:"move,omitempty"`
}

// VestingAddReq is the input of vestingsc "add".
//
// Contract rules (vestingsc/vesting.go): StartTime 0 means "the transaction time", otherwise it must be >= the
// transaction time; config.min_duration <= Duration <= config.max_duration (shipped: 2m .. 2h); 1..max_destinations
// (shipped 3) destinations; len(Description) <= max_description_length (shipped 20); the transaction value must be
// >= the sum of the destination amounts and >= min_lock (shipped 0.01 ZCN = 1e8) and <= the sender's balance.
// The whole value is locked; what exceeds the sum of amounts can be taken back by the owner with unlock.
type VestingAddReq struct {
	Description  string           `json:"description,omitempty"`
	StartTime    common.Timestamp `json:"start_time"`
	Duration     time.Duration    `json:"duration"` // JSON: integer nanoseconds
	Destinations []VestingDest    `json:"destinations"`
}

type vestingPoolReq struct {
	PoolID string `json:"pool_id"`
}

type vestingStopReq struct {
	PoolID      string `json:"pool_id"`
	Destination string `json:"destination"`
}

// VestingAdd builds vestingsc "add" (create and fill a pool). The pool id is VestingPoolID(returned txn).
func (l *Lib) VestingAdd(from *sim.Wallet, req VestingAddReq, value currency.Coin) *transaction.Transaction {
	if req.Destinations == nil {
		req.Destinations = []VestingDest{}
	}
	return l.Call(from, sim.VestingSC, "add", req, value)
}

// VestingPoolID derives the id of the pool an add transaction creates:
//
//	vestingsc.ADDRESS + ":vestingpool:" + addTxn.Hash
//
// (vestingsc.poolKey(vsc.ID, t.Hash)); the same string is the key of the pool node in state and the entry in the
// owner's client-pools list.
func VestingPoolID(addTxn *transaction.Transaction) string {
	return vestingsc.VerifMiscPoolKey(addTxn.Hash)
}

// VestingTrigger builds "trigger": the pool owner pushes everything vested so far to all destinations.
func (l *Lib) VestingTrigger(owner *sim.Wallet, poolID string) *transaction.Transaction {
	return l.Call(owner, sim.VestingSC, "trigger", vestingPoolReq{poolID}, 0)
}

// VestingUnlock builds "unlock". Sent by the pool owner it returns the excess (balance - sum(amount-vested)) and
// fails when the excess is 0; sent by anybody else the sender is looked up among the destinations and gets what
// has vested for it since its last move (fails with "zero vesting" when that is 0, or when it is no destination).
func (l *Lib) VestingUnlock(from *sim.Wallet, poolID string) *transaction.Transaction {
	return l.Call(from, sim.VestingSC, "unlock", vestingPoolReq{poolID}, 0)
}

// VestingStop builds "stop": the owner pays a destination what it has vested so far and removes it from the pool
// (fails after the pool expired).
func (l *Lib) VestingStop(owner *sim.Wallet, poolID, destID string) *transaction.Transaction {
	return l.Call(owner, sim.VestingSC, "stop", vestingStopReq{poolID, destID}, 0)
}

// VestingDelete builds "delete": the owner triggers the pool a last time, takes the rest and removes the pool.
func (l *Lib) VestingDelete(owner *sim.Wallet, poolID string) *transaction.Transaction {
	return l.Call(owner, sim.VestingSC, "delete", vestingPoolReq{poolID}, 0)
}

// VestingUpdateSettings builds "vestingsc-update-settings" (owner_id of the vesting config only).
func (l *Lib) VestingUpdateSettings(from *sim.Wallet, fields map[string]string) *transaction.Transaction {
	return l.UpdateSettings(VestingSettings, from, fields)
}

// Views (types come from the shim compiled into package vestingsc).
type (
	VestingPool       = vestingsc.VerifMiscPool
	VestingPoolDest   = vestingsc.VerifMiscDest
	VestingConfigView = vestingsc.VerifMiscConfig
)

// VestingPool reads a pool from the current state with the contract's getPool; Earned/Excess are computed by the
// contract's info() for the history clock. A deleted / unknown pool gives util.ErrValueNotPresent.
func (l *Lib) VestingPool(poolID string) (*VestingPool, error) {
	return vestingsc.VerifMiscGetPool(l.ctx(), poolID, l.H.Now)
}

// VestingClientPools lists the pool ids recorded for a client (empty when it has none).
func (l *Lib) VestingClientPools(clientID string) ([]string, error) {
	return vestingsc.VerifMiscClientPools(l.ctx(), clientID)
}

// VestingConfig reads the stored contract configuration.
func (l *Lib) VestingConfig() (*VestingConfigView, error) {
	return vestingsc.VerifMiscGetConfig(l.ctx())
}
