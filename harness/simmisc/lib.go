// Package simmisc drives the vesting contract, the faucet contract and the
// governance (settings) functions of every contract through the sim harness.
//
// All builders return a *transaction.Transaction that is NOT executed; pass it
// to History.Do. Builders pick the sender's next nonce from state at build
// time (History.Call), so build a transaction right before executing it.
//
// The views need the read-only shims under /verif/wip/misc/overlays, i.e.
// VERIF_EXTRA_OVERLAYS must contain /verif/wip/misc/overlays when building.
package simmisc

import (
	"0chain.net/chaincore/block"
	chainstate "0chain.net/chaincore/chain/state"
	"0chain.net/chaincore/transaction"
	"0chain.net/core/common"
	"github.com/0chain/common/core/currency"
	"github.com/0chain/common/core/statecache"
	"github.com/0chain/common/core/util"
	"verifharness/sim"
)

// Lib binds the builders and views to one history.
type Lib struct {
	H *sim.History
	// Fee is put on every transaction built by the library (0 by default; Chain.UpdateState does not enforce a minimum).
	Fee currency.Coin
}

// New returns a library bound to h.
func New(h *sim.History) *Lib { return &Lib{H: h} }

// Call builds an arbitrary contract call with the library's fee (for malformed / hand-written inputs:
// input may be a Go value, a JSON string or raw bytes, see sim.SCTxn).
func (l *Lib) Call(from *sim.Wallet, sc, fn string, input interface{}, value currency.Coin) *transaction.Transaction {
	return l.H.Call(from, sc, fn, input, value, l.Fee)
}

// settingsInput is the payload of every settings function: core/config.StringMap.
type settingsInput struct {
	Fields map[string]string `json:"fields"`
}

// StateContext returns a real chain state context over a fresh, uncached trie handle on the current
// state root of b; the contracts' own getters can be called on it. It must only be used for reading.
func StateContext(b *block.Block, now common.Timestamp) chainstate.StateContextI {
	mpt := util.NewMerklePatriciaTrie(b.ClientState.GetNodeDB(), util.Sequence(b.Round), b.ClientState.GetRoot(), statecache.NewEmpty())
	txn := &transaction.Transaction{}
	txn.CreationDate = now
	lfb := func() *block.Block { return b }
	return chainstate.NewStateContext(b, mpt, txn,
		func(int64) *block.MagicBlock { return nil }, lfb, func() *block.MagicBlock { return nil }, nil, lfb, nil)
}

// ctx is a read context on the history's current (open) block.
func (l *Lib) ctx() chainstate.StateContextI { return StateContext(l.H.Cur.B, l.H.Now) }

// timedCtx is ctx with the history clock as "now" (what the REST handlers get).
func (l *Lib) timedCtx() chainstate.TimedQueryStateContextI {
	now := l.H.Now
	return chainstate.NewTimedQueryStateContext(l.ctx(), func() common.Timestamp { return now })
}
