package simmisc

import (
	"fmt"
	"sort"

	"0chain.net/chaincore/transaction"
	"0chain.net/smartcontract/faucetsc"
	"0chain.net/smartcontract/minersc"
	"0chain.net/smartcontract/storagesc"
	"0chain.net/smartcontract/vestingsc"
	"0chain.net/smartcontract/zcnsc"
	"verifharness/sim"
)

// Target is one governance (settings) function of the chain.
type Target int

const (
	MinerSettings   Target = iota // minersc  update_settings
	MinerGlobals                  // minersc  update_globals (chain-wide 0chain.yaml settings kept in state)
	StorageSettings               // storagesc update_settings (+ commit_settings_changes)
	FaucetSettings                // faucetsc update-settings
	ZcnSettings                   // zcnsc    update-global-config
	VestingSettings               // vestingsc vestingsc-update-settings
)

// Targets lists every settings function.
func Targets() []Target {
	return []Target{MinerSettings, MinerGlobals, StorageSettings, FaucetSettings, ZcnSettings, VestingSettings}
}

func (t Target) String() string {
	switch t {
	case MinerSettings:
		return "minersc.update_settings"
	case MinerGlobals:
		return "minersc.update_globals"
	case StorageSettings:
		return "storagesc.update_settings"
	case FaucetSettings:
		return "faucetsc.update-settings"
	case ZcnSettings:
		return "zcnsc.update-global-config"
	case VestingSettings:
		return "vestingsc.vestingsc-update-settings"
	}
	return fmt.Sprintf("target(%d)", int(t))
}

// Address of the contract that owns the settings.
func (t Target) Address() string {
	switch t {
	case MinerSettings, MinerGlobals:
		return sim.MinerSC
	case StorageSettings:
		return sim.StorageSC
	case FaucetSettings:
		return sim.FaucetSC
	case ZcnSettings:
		return sim.ZcnSC
	case VestingSettings:
		return sim.VestingSC
	}
	panic("simmisc: unknown target")
}

// Function is the contract function name that updates the settings.
func (t Target) Function() string {
	switch t {
	case MinerSettings:
		return "update_settings"
	case MinerGlobals:
		return "update_globals"
	case StorageSettings:
		return "update_settings"
	case FaucetSettings:
		return "update-settings"
	case ZcnSettings:
		return zcnsc.UpdateGlobalConfigFunc
	case VestingSettings:
		return "vestingsc-update-settings"
	}
	panic("simmisc: unknown target")
}

// NeedsCommit tells that an accepted update only STAGES the changes: storagesc update_settings records them in a
// "setting_changes" node and they reach the active configuration (the one every storage function reads) only when
// somebody sends commit_settings_changes (StorageCommitSettings), which also runs the validation.
// (After the "demeter" hard fork round - none is recorded on the booted chain - update_settings additionally writes
// the merged configuration at once, without validation.)
func (t Target) NeedsCommit() bool { return t == StorageSettings }

// UpdateSettings builds the settings update of the target with the given name -> value map.
// Every settings function takes core/config.StringMap: {"fields": {name: value, ...}}; the sender must be the
// owner_id stored in that contract's configuration (all of them are s.Owner on the booted chain).
// A nil map is sent as an empty object of fields.
func (l *Lib) UpdateSettings(t Target, from *sim.Wallet, fields map[string]string) *transaction.Transaction {
	if fields == nil {
		fields = map[string]string{}
	}
	return l.Call(from, t.Address(), t.Function(), settingsInput{Fields: fields}, 0)
}

// MinerUpdateSettings builds minersc "update_settings".
func (l *Lib) MinerUpdateSettings(from *sim.Wallet, fields map[string]string) *transaction.Transaction {
	return l.UpdateSettings(MinerSettings, from, fields)
}

// MinerUpdateGlobals builds minersc "update_globals".
func (l *Lib) MinerUpdateGlobals(from *sim.Wallet, fields map[string]string) *transaction.Transaction {
	return l.UpdateSettings(MinerGlobals, from, fields)
}

// StorageUpdateSettings builds storagesc "update_settings" (stages the changes, see Target.NeedsCommit).
func (l *Lib) StorageUpdateSettings(from *sim.Wallet, fields map[string]string) *transaction.Transaction {
	return l.UpdateSettings(StorageSettings, from, fields)
}

// StorageCommitSettings builds storagesc "commit_settings_changes": applies ALL staged changes to the stored
// configuration, validates the result and saves it. The contract does not check the sender (a miner sends it every
// server_chain.smart_contract.setting_update_period rounds) and never clears the staged changes.
func (l *Lib) StorageCommitSettings(from *sim.Wallet) *transaction.Transaction {
	return l.Call(from, sim.StorageSC, "commit_settings_changes", nil, 0)
}

// ZcnUpdateGlobalConfig builds zcnsc "update-global-config".
func (l *Lib) ZcnUpdateGlobalConfig(from *sim.Wallet, fields map[string]string) *transaction.Transaction {
	return l.UpdateSettings(ZcnSettings, from, fields)
}

// Settings returns the CURRENT (active) settings of the target as the contract itself renders them for its REST
// endpoint: name -> value text. Units and formats are the contract's (see SettingSpec.View); for StorageSettings
// this is the committed configuration - staged changes are in StorageStagedSettings.
func (l *Lib) Settings(t Target) (map[string]string, error) {
	switch t {
	case MinerSettings:
		return minersc.VerifMiscConfigMap(l.ctx())
	case MinerGlobals:
		f, _, _, err := minersc.VerifMiscGlobals(l.ctx())
		return f, err
	case StorageSettings:
		return storagesc.VerifMiscConfigMap(l.ctx())
	case FaucetSettings:
		return faucetsc.VerifMiscConfigMap(l.timedCtx())
	case ZcnSettings:
		gn, err := zcnsc.GetGlobalNode(l.ctx())
		if err != nil {
			return nil, err
		}
		return gn.ToStringMap().Fields, nil
	case VestingSettings:
		return vestingsc.VerifMiscConfigMap(l.ctx())
	}
	return nil, fmt.Errorf("simmisc: unknown target %d", int(t))
}

// MinerGlobalsVersion returns the version counter of the stored global settings (incremented by every accepted
// update_globals) and whether the node exists.
func (l *Lib) MinerGlobalsVersion() (version int64, stored bool, err error) {
	_, v, st, err := minersc.VerifMiscGlobals(l.ctx())
	return v, st, err
}

// StorageStagedSettings returns the changes staged by update_settings (all of them, accumulated; never cleared).
func (l *Lib) StorageStagedSettings() (map[string]string, error) {
	return storagesc.VerifMiscStagedChanges(l.ctx())
}

// SortedNames of a settings map.
func SortedNames(m map[string]string) []string {
	out := make([]string, 0, len(m))
	for k := range m {
		out = append(out, k)
	}
	sort.Strings(out)
	return out
}

// ImmutableNames lists the names of a target that the contract refuses to change through its settings function.
func ImmutableNames(t Target) []string {
	var out []string
	for _, sp := range Specs(t) {
		if sp.Immutable {
			out = append(out, sp.Name)
		}
	}
	return out
}

// MinerAddHardfork builds minersc "add_hardfork" (owner only): records hard fork `name` as active from `round` on.
// It is here because the "demeter" fork changes what storagesc update_settings does (see Target.NeedsCommit).
func (l *Lib) MinerAddHardfork(from *sim.Wallet, name string, round int64) *transaction.Transaction {
	return l.Call(from, sim.MinerSC, "add_hardfork", settingsInput{Fields: map[string]string{name: fmt.Sprintf("%d", round)}}, 0)
}
