package simmisc

import (
	"sort"
	"strings"

	"0chain.net/core/config"
	"0chain.net/smartcontract/faucetsc"
	"0chain.net/smartcontract/minersc"
	"0chain.net/smartcontract/storagesc"
	"0chain.net/smartcontract/vestingsc"
	"0chain.net/smartcontract/zcnsc"
	"verifharness/sim"
)

// SettingSpec describes one setting name of a settings function.
type SettingSpec struct {
	Name string
	// Kind is how the contract parses the value:
	//   int, int32, int64, float64, bool, time.duration (Go duration text), string, []string (comma separated),
	//   datastore.Key (hex text), Cost (integer >= 0),
	//   currency.Coin = decimal ZCN text ("0.5" = 5e9 tokens)  -- all contracts' update functions,
	//   coin-raw      = integer token units                    -- zcnsc min_lock, max_fee only.
	Kind string
	// Example is a value that the real contract accepts as a single-key update (plus With) by the owner on the
	// shipped configuration, and that differs from the shipped value.
	Example string
	// View is the text the contract's own settings view (Lib.Settings) shows for the name after Example was applied.
	View string
	// With are other keys that must be sent together with Example for the update to pass validation.
	With map[string]string
	// Immutable: the contract refuses to change this name through the settings function (Example is then what the
	// refusal was observed with).
	Immutable bool
	Note      string
}

// Fields is the update map for the spec's example.
func (s SettingSpec) Fields() map[string]string {
	m := map[string]string{s.Name: s.Example}
	for k, v := range s.With {
		m[k] = v
	}
	return m
}

// ExampleOwner is the wallet whose id the owner_id examples use.
func ExampleOwner() *sim.Wallet { return sim.NewWallet("govowner", 0) }

type ex struct{ example, view string }

func kindName(i int) string {
	if i >= 0 && i < len(config.ConfigTypeName) {
		return config.ConfigTypeName[i]
	}
	return "?"
}

// Specs returns the setting names of a target, sorted by name, each with one accepted example.
func Specs(t Target) []SettingSpec {
	var out []SettingSpec
	owner := ExampleOwner().ID
	switch t {
	case MinerSettings:
		out = fromKinds(minersc.VerifMiscSettingKinds(), minerExamples(owner))
	case StorageSettings:
		out = fromKinds(storagesc.VerifMiscSettingKinds(), storageExamples(owner))
	case MinerGlobals:
		out = globalsSpecs()
	case FaucetSettings:
		names, costs := faucetsc.VerifMiscSettingNames()
		out = fromNames(names, costs, map[string]SettingSpec{
			"pour_amount":      {Kind: "currency.Coin", Example: "2", View: "2", Note: "validate: 1 token <= pour_amount <= max_pour_amount"},
			"max_pour_amount":  {Kind: "currency.Coin", Example: "50", View: "50", Note: "validate: pour_amount <= max_pour_amount <= periodic_limit"},
			"periodic_limit":   {Kind: "currency.Coin", Example: "500", View: "500", Note: "validate: max_pour_amount <= periodic_limit <= global_limit"},
			"global_limit":     {Kind: "currency.Coin", Example: "50000", View: "50000"},
			"individual_reset": {Kind: "time.duration", Example: "2h", View: "2h0m0s", Note: "validate: >= 1s and <= global reset"},
			"global_rest":      {Kind: "time.duration", Example: "24h", View: "24h0m0s", Note: "the setting is really spelled global_rest (sc.yaml: global_reset)"},
			"owner_id":         {Kind: "datastore.Key", Example: owner, View: owner},
		})
	case VestingSettings:
		names, costs := vestingsc.VerifMiscSettingNames()
		out = fromNames(names, costs, map[string]SettingSpec{
			"min_lock":               {Kind: "currency.Coin", Example: "0.5", View: "0.5"},
			"min_duration":           {Kind: "time.duration", Example: "3m", View: "3m0s"},
			"max_duration":           {Kind: "time.duration", Example: "3h", View: "3h0m0s"},
			"max_destinations":       {Kind: "int", Example: "5", View: "5"},
			"max_description_length": {Kind: "int", Example: "30", View: "30"},
			"owner_id":               {Kind: "datastore.Key", Example: owner, View: owner},
		})
		for i := range out {
			if out[i].Note == "" {
				out[i].Note = "vestingsc-update-settings does not validate the resulting configuration"
			}
		}
	case ZcnSettings:
		// With the shipped sc.yaml (zcnsc.min_stake: 0) GlobalNode.Validate rejects every update whose RESULT has
		// min_stake < 1 token, so every update must carry a positive min_stake.
		need := map[string]string{zcnsc.MinStakeAmount: "1"}
		m := map[string]SettingSpec{
			zcnsc.MinMintAmount:       {Kind: "currency.Coin", Example: "2", View: "20000000000", With: need},
			zcnsc.MinBurnAmount:       {Kind: "currency.Coin", Example: "2", View: "20000000000", With: need},
			zcnsc.MinStakeAmount:      {Kind: "currency.Coin", Example: "1", View: "10000000000"},
			zcnsc.MinStakePerDelegate: {Kind: "currency.Coin", Example: "2", View: "20000000000", With: need},
			zcnsc.MaxStakeAmount:      {Kind: "currency.Coin", Example: "1000", View: "10000000000000", With: need},
			zcnsc.PercentAuthorizers:  {Kind: "float64", Example: "0.5", View: "0.5", With: need},
			zcnsc.MinAuthorizers:      {Kind: "int64", Example: "2", View: "2", With: need},
			zcnsc.MinLockAmount:       {Kind: "coin-raw", Example: "5", View: "5", With: need},
			zcnsc.MaxFee:              {Kind: "coin-raw", Example: "200", View: "200", With: need, Note: "parsed as float64 and truncated to token units"},
			zcnsc.OwnerID:             {Kind: "string", Example: owner, View: owner, With: need, Note: "any text is accepted (no hex check)"},
			zcnsc.MaxDelegates:        {Kind: "int", Example: "20", View: "20", With: need},
			zcnsc.HealthCheckPeriod:   {Kind: "time.duration", Example: "1h", View: "1h0m0s", With: need},
		}
		for _, f := range zcnsc.CostFunctions {
			m["cost."+f] = SettingSpec{Kind: "Cost", Example: "151", With: need, Immutable: true,
				Note: "listed in the view but UpdateConfig rejects every cost.* key (and the bare key \"cost\")"}
		}
		for name, s := range m {
			s.Name = name
			out = append(out, s)
		}
		for i := range out {
			if out[i].Note == "" {
				out[i].Note = "view shows currency values in token units although the update takes decimal ZCN"
			}
		}
	}
	sort.Slice(out, func(i, j int) bool { return out[i].Name < out[j].Name })
	return out
}

// fromNames builds specs for contracts whose table is a plain name list + cost functions (faucetsc, vestingsc).
// The last entry of such lists is the bare "cost" prefix, which is not a setting by itself.
func fromNames(names, costFns []string, m map[string]SettingSpec) []SettingSpec {
	var out []SettingSpec
	for _, n := range names {
		if n == "cost" {
			continue
		}
		s := m[n]
		s.Name = n
		out = append(out, s)
	}
	for _, f := range costFns {
		out = append(out, SettingSpec{Name: "cost." + f, Kind: "Cost", Example: "151", View: "151"})
	}
	return out
}

// fromKinds builds specs from a contract's Settings table (name -> config type) and hand-picked examples.
func fromKinds(kinds map[string]int, exs map[string]SettingSpec) []SettingSpec {
	var out []SettingSpec
	for name, k := range kinds {
		s := exs[name]
		s.Name = name
		s.Kind = kindName(k)
		if s.Example == "" && strings.HasPrefix(name, "cost.") {
			s.Example, s.View = "151", "151"
		}
		out = append(out, s)
	}
	return out
}

func minerExamples(owner string) map[string]SettingSpec {
	return map[string]SettingSpec{
		"min_stake":                      {Example: "1", View: "1"},
		"min_stake_per_delegate":         {Example: "2", View: "2"},
		"max_stake":                      {Example: "10000", View: "10000"},
		"max_n":                          {Example: "8", View: "8", Note: "validate: max_n >= min_n"},
		"min_n":                          {Example: "2", View: "2", Note: "validate: min_n >= 1"},
		"t_percent":                      {Example: "0.5", View: "0.5"},
		"k_percent":                      {Example: "0.6", View: "0.6"},
		"x_percent":                      {Example: "0.65", View: "0.65"},
		"max_s":                          {Example: "3", View: "3", Note: "validate: max_s >= min_s"},
		"min_s":                          {Example: "2", View: "2", Note: "validate: min_s >= 1"},
		"max_delegates":                  {Example: "100", View: "100", Note: "validate: > 0"},
		"reward_round_frequency":         {Example: "300", View: "300"},
		"reward_rate":                    {Example: "0.9", View: "0.9"},
		"share_ratio":                    {Example: "0.2", View: "0.2"},
		"block_reward":                   {Example: "0.1", View: "0.1"},
		"max_charge":                     {Example: "0.4", View: "0.4"},
		"epoch":                          {Example: "1000000", View: "1000000"},
		"reward_decline_rate":            {Example: "0.2", View: "0.2"},
		"num_miner_delegates_rewarded":   {Example: "8", View: "8", Note: "validate: >= 0"},
		"num_sharders_rewarded":          {Example: "2", View: "2", Note: "validate: >= 0"},
		"num_sharder_delegates_rewarded": {Example: "4", View: "4", Note: "validate: >= 0"},
		"owner_id":                       {Example: owner, View: owner},
		"cooldown_period":                {Example: "50", View: "50"},
		"health_check_period":            {Example: "1h", View: "1h0m0s"},
	}
}

func storageExamples(owner string) map[string]SettingSpec {
	return map[string]SettingSpec{
		"max_stake":                                      {Example: "10000", View: "10000", Note: "validate: max_stake >= min_stake"},
		"min_stake":                                      {Example: "0.02", View: "0.02"},
		"min_stake_per_delegate":                         {Example: "2", View: "2"},
		"time_unit":                                      {Example: "360h", View: "360h0m0s", Note: "validate: > 1s"},
		"min_alloc_size":                                 {Example: "2048", View: "2048"},
		"max_challenge_completion_rounds":                {Example: "600", View: "600"},
		"min_blobber_capacity":                           {Example: "1024", View: "1024"},
		"readpool.min_lock":                              {Example: "0.1", View: "0.1"},
		"writepool.min_lock":                             {Example: "0.2", View: "0.2"},
		"stakepool.min_lock_period":                      {Example: "1h", View: "1h0m0s"},
		"stakepool.kill_slash":                           {Example: "0.4", View: "0.4", Note: "validate: in [0,1]"},
		"max_total_free_allocation":                      {Example: "5000", View: "5000"},
		"max_individual_free_allocation":                 {Example: "50", View: "50"},
		"cancellation_charge":                            {Example: "0.3", View: "0.3", Note: "validate: in [0,1]"},
		"free_allocation_settings.data_shards":           {Example: "5", View: "5"},
		"free_allocation_settings.parity_shards":         {Example: "3", View: "3"},
		"free_allocation_settings.size":                  {Example: "20000000", View: "20000000"},
		"free_allocation_settings.read_price_range.min":  {Example: "0.5", View: "0.5", With: map[string]string{"free_allocation_settings.read_price_range.max": "1"}, Note: "validate: min <= max (shipped max is 0)"},
		"free_allocation_settings.read_price_range.max":  {Example: "1", View: "1"},
		"free_allocation_settings.write_price_range.min": {Example: "0.5", View: "0.5"},
		"free_allocation_settings.write_price_range.max": {Example: "2", View: "2"},
		"free_allocation_settings.read_pool_fraction":    {Example: "0.1", View: "0.1", Note: "validate: in [0,1]"},
		"validator_reward":                               {Example: "0.05", View: "0.05", Note: "validate: in [0,1]"},
		"blobber_slash":                                  {Example: "0.2", View: "0.2", Note: "validate: in [0,1]"},
		"health_check_period":                            {Example: "1h", View: "1h0m0s", Note: "validate: > 0"},
		"max_blobbers_per_allocation":                    {Example: "30", View: "30", Note: "validate: > 0"},
		"max_read_price":                                 {Example: "5", View: "5"},
		"max_write_price":                                {Example: "6", View: "6", Note: "validate: >= min_write_price"},
		"min_write_price":                                {Example: "0.002", View: "0.002"},
		"max_file_size":                                  {Example: "1000000000", View: "1000000000"},
		"challenge_enabled":                              {Example: "false", View: "false"},
		"challenge_generation_gap":                       {Example: "5", View: "5"},
		"validators_per_challenge":                       {Example: "2", View: "2", Note: "validate: > 0"},
		"num_validators_rewarded":                        {Example: "5", View: "5", Note: "validate: > 0"},
		"max_blobber_select_for_challenge":               {Example: "4", View: "4", Note: "validate: > 0"},
		"max_delegates":                                  {Example: "100", View: "100", Note: "validate: >= 1"},
		"block_reward.block_reward":                      {Example: "0.05", View: "0.05"},
		"block_reward.qualifying_stake":                  {Example: "2", View: "2"},
		"block_reward.gamma.alpha":                       {Example: "0.3", View: "0.3", Note: "validate: > 0"},
		"block_reward.gamma.a":                           {Example: "11", View: "11", Note: "validate: > 0"},
		"block_reward.gamma.b":                           {Example: "8", View: "8", Note: "validate: > 0"},
		"block_reward.zeta.i":                            {Example: "2", View: "2", Note: "validate: > 0"},
		"block_reward.zeta.k":                            {Example: "0.8", View: "0.8", Note: "validate: > 0"},
		"block_reward.zeta.mu":                           {Example: "0.3", View: "0.3", Note: "validate: > 0"},
		"owner_id":                                       {Example: owner, View: owner},
		"max_charge":                                     {Example: "0.4", View: "0.4", Note: "validate: in [0,1]"},
	}
}

// globalsSpecs lists the chain-wide settings of update_globals from core/config.GlobalSettingInfo. The contract only
// checks that a value parses as the setting's type; Immutable are the names it refuses ("cannot be modified via a
// transaction"). Names in config.GlobalSettingsIgnored (dbs.events.*) are immutable and absent from the view.
func globalsSpecs() []SettingSpec {
	byType := map[config.ConfigType]ex{
		config.Int:      {"7", "7"},
		config.Int32:    {"7", "7"},
		config.Int64:    {"7", "7"},
		config.Duration: {"7s", "7s"},
		config.Float64:  {"0.7", "0.7"},
		config.Boolean:  {"false", "false"},
		config.String:   {"verif", "verif"},
		config.Strings:  {"pour,wait", "pour,wait"},
	}
	special := map[string]ex{
		"server_chain.block.proposal.wait_mode":         {"dynamic", "dynamic"},
		"server_chain.client.signature_scheme":          {"ed25519", "ed25519"},
		"server_chain.messages.verification_tickets_to": {"generator", "generator"},
		"server_chain.block_rewards":                    {"false", "false"},
		"server_chain.block.reuse_txns":                 {"true", "true"},
		"server_chain.view_change":                      {"true", "true"},
		"server_chain.dbs.settings.debug":               {"true", "true"},
	}
	var out []SettingSpec
	for name, info := range config.GlobalSettingInfo {
		e := byType[info.SettingType]
		if s, ok := special[name]; ok {
			e = s
		}
		sp := SettingSpec{Name: name, Kind: kindName(int(info.SettingType)), Example: e.example, View: e.view, Immutable: !info.Mutable}
		if config.GlobalSettingsIgnored[name] {
			sp.Note = "not part of the stored global settings"
		}
		out = append(out, sp)
	}
	return out
}
