module verifharness

go 1.23

toolchain go1.23.5

require (
	0chain.net v0.0.0
	github.com/leanovate/gopter v0.2.11
	pgregory.net/rapid v1.3.0
)

replace 0chain.net => /repo/code/go/0chain.net

replace github.com/linxGnu/grocksdb => /verif/third_party/grocksdb

replace github.com/tinylib/msgp => github.com/0chain/msgp v1.1.62
