module verifharness

go 1.23

toolchain go1.23.5

require (
	0chain.net v0.0.0
	github.com/0chain/common v1.13.1-0.20240726100134-cbf5bf9beaac
	github.com/herumi/bls-go-binary v1.33.0
	github.com/leanovate/gopter v0.2.11
	go.uber.org/zap v1.24.0
	pgregory.net/rapid v1.3.0
)

require (
	github.com/0chain/errors v1.0.3 // indirect
	github.com/0chain/gosdk v1.16.0 // indirect
	github.com/IBM/sarama v1.42.2 // indirect
	github.com/asaskevich/govalidator v0.0.0-20230301143203-a9d515a09cc2 // indirect
	github.com/aws/aws-sdk-go-v2 v1.22.2 // indirect
	github.com/aws/aws-sdk-go-v2/config v1.24.0 // indirect
	github.com/aws/aws-sdk-go-v2/credentials v1.15.2 // indirect
	github.com/aws/aws-sdk-go-v2/feature/ec2/imds v1.14.3 // indirect
	github.com/aws/aws-sdk-go-v2/internal/configsources v1.2.2 // indirect
	github.com/aws/aws-sdk-go-v2/internal/endpoints/v2 v2.5.2 // indirect
	github.com/aws/aws-sdk-go-v2/internal/ini v1.7.0 // indirect
	github.com/aws/aws-sdk-go-v2/service/internal/presigned-url v1.10.2 // indirect
	github.com/aws/aws-sdk-go-v2/service/secretsmanager v1.23.1 // indirect
	github.com/aws/aws-sdk-go-v2/service/sso v1.17.1 // indirect
	github.com/aws/aws-sdk-go-v2/service/ssooidc v1.19.1 // indirect
	github.com/aws/aws-sdk-go-v2/service/sts v1.25.1 // indirect
	github.com/aws/smithy-go v1.16.0 // indirect
	github.com/davecgh/go-spew v1.1.1 // indirect
	github.com/didip/tollbooth v4.0.2+incompatible // indirect
	github.com/eapache/go-resiliency v1.6.0 // indirect
	github.com/eapache/go-xerial-snappy v0.0.0-20230731223053-c322873962e3 // indirect
	github.com/eapache/queue v1.1.0 // indirect
	github.com/ethereum/go-ethereum v1.10.26 // indirect
	github.com/fsnotify/fsnotify v1.6.0 // indirect
	github.com/gabriel-vasile/mimetype v1.4.2 // indirect
	github.com/go-openapi/analysis v0.21.4 // indirect
	github.com/go-openapi/errors v0.20.3 // indirect
	github.com/go-openapi/jsonpointer v0.19.5 // indirect
	github.com/go-openapi/jsonreference v0.20.0 // indirect
	github.com/go-openapi/loads v0.21.2 // indirect
	github.com/go-openapi/runtime v0.26.0 // indirect
	github.com/go-openapi/spec v0.20.8 // indirect
	github.com/go-openapi/strfmt v0.21.7 // indirect
	github.com/go-openapi/swag v0.22.3 // indirect
	github.com/go-openapi/validate v0.22.1 // indirect
	github.com/go-playground/locales v0.14.1 // indirect
	github.com/go-playground/universal-translator v0.18.1 // indirect
	github.com/go-playground/validator/v10 v10.15.5 // indirect
	github.com/golang/snappy v0.0.5-0.20220116011046-fa5810519dcb // indirect
	github.com/gomodule/redigo v1.8.9 // indirect
	github.com/google/uuid v1.3.0 // indirect
	github.com/guregu/null v4.0.0+incompatible // indirect
	github.com/hashicorp/errwrap v1.0.0 // indirect
	github.com/hashicorp/go-multierror v1.1.1 // indirect
	github.com/hashicorp/go-uuid v1.0.3 // indirect
	github.com/hashicorp/golang-lru v0.5.5-0.20210104140557-80c98217689d // indirect
	github.com/hashicorp/golang-lru/v2 v2.0.7 // indirect
	github.com/hashicorp/hcl v1.0.0 // indirect
	github.com/jackc/pgpassfile v1.0.0 // indirect
	github.com/jackc/pgservicefile v0.0.0-20221227161230-091c0ba34f0a // indirect
	github.com/jackc/pgx/v5 v5.4.3 // indirect
	github.com/jcmturner/aescts/v2 v2.0.0 // indirect
	github.com/jcmturner/dnsutils/v2 v2.0.0 // indirect
	github.com/jcmturner/gofork v1.7.6 // indirect
	github.com/jcmturner/gokrb5/v8 v8.4.4 // indirect
	github.com/jcmturner/rpc/v2 v2.0.3 // indirect
	github.com/jinzhu/inflection v1.0.0 // indirect
	github.com/jinzhu/now v1.1.5 // indirect
	github.com/josharian/intern v1.0.0 // indirect
	github.com/klauspost/compress v1.17.0 // indirect
	github.com/klauspost/cpuid/v2 v2.2.4 // indirect
	github.com/koding/cache v0.0.0-20161222233018-4a3175c6b2fe // indirect
	github.com/leodido/go-urn v1.2.4 // indirect
	github.com/lib/pq v1.10.9 // indirect
	github.com/linxGnu/grocksdb v1.8.1 // indirect
	github.com/lithammer/shortuuid/v3 v3.0.7 // indirect
	github.com/magiconair/properties v1.8.7 // indirect
	github.com/mailru/easyjson v0.7.7 // indirect
	github.com/mattn/go-sqlite3 v1.14.17 // indirect
	github.com/minio/sha256-simd v1.0.1 // indirect
	github.com/mitchellh/mapstructure v1.5.0 // indirect
	github.com/oklog/ulid v1.3.1 // indirect
	github.com/patrickmn/go-cache v2.1.0+incompatible // indirect
	github.com/pelletier/go-toml/v2 v2.0.8 // indirect
	github.com/philhofer/fwd v1.1.2-0.20210722190033-5c56ac6d0bb9 // indirect
	github.com/pierrec/lz4/v4 v4.1.21 // indirect
	github.com/pkg/errors v0.9.1 // indirect
	github.com/pmezard/go-difflib v1.0.0 // indirect
	github.com/pressly/goose/v3 v3.15.0 // indirect
	github.com/rcrowley/go-metrics v0.0.0-20201227073835-cf1acfcdf475 // indirect
	github.com/shopspring/decimal v1.3.1 // indirect
	github.com/spf13/afero v1.9.5 // indirect
	github.com/spf13/cast v1.5.1 // indirect
	github.com/spf13/jwalterweatherman v1.1.0 // indirect
	github.com/spf13/pflag v1.0.5 // indirect
	github.com/spf13/viper v1.16.0 // indirect
	github.com/stretchr/testify v1.9.0 // indirect
	github.com/subosito/gotenv v1.4.2 // indirect
	github.com/tinylib/msgp v1.1.6 // indirect
	github.com/valyala/gozstd v1.20.1 // indirect
	github.com/vmihailenco/msgpack/v5 v5.4.0 // indirect
	github.com/vmihailenco/tagparser/v2 v2.0.0 // indirect
	go.mongodb.org/mongo-driver v1.11.3 // indirect
	go.uber.org/atomic v1.11.0 // indirect
	go.uber.org/multierr v1.9.0 // indirect
	golang.org/x/crypto v0.21.0 // indirect
	golang.org/x/exp v0.0.0-20230515195305-f3d0a9c9a5cc // indirect
	golang.org/x/net v0.22.0 // indirect
	golang.org/x/sys v0.18.0 // indirect
	golang.org/x/text v0.14.0 // indirect
	golang.org/x/time v0.3.0 // indirect
	gopkg.in/ini.v1 v1.67.0 // indirect
	gopkg.in/natefinch/lumberjack.v2 v2.2.1 // indirect
	gopkg.in/yaml.v2 v2.4.0 // indirect
	gopkg.in/yaml.v3 v3.0.1 // indirect
	gorm.io/driver/postgres v1.5.2 // indirect
	gorm.io/driver/sqlite v1.5.3 // indirect
	gorm.io/gorm v1.25.4 // indirect
	moul.io/zapgorm2 v1.3.0 // indirect
)

replace 0chain.net => /repo/code/go/0chain.net

replace github.com/linxGnu/grocksdb => /verif/third_party/grocksdb

replace github.com/tinylib/msgp => github.com/0chain/msgp v1.1.62
