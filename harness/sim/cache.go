package sim

import (
	"0chain.net/chaincore/block"
	"github.com/0chain/common/core/statecache"
)

type cacheHandle struct {
	bc *statecache.BlockCache
}

func newCache(s *Sim, b *block.Block) cacheHandle {
	return cacheHandle{bc: statecache.NewBlockCache(s.Chain.GetStateCache(), statecache.Block{Round: b.Round, Hash: b.Hash, PrevHash: b.PrevHash})}
}

func (c cacheHandle) commit(hash string) {
	c.bc.SetBlockHash(hash)
	c.bc.Commit()
}
