package sim

import (
	"context"
	"time"

	"0chain.net/chaincore/block"
	"0chain.net/chaincore/chain"
	"0chain.net/chaincore/smartcontract"
	"0chain.net/chaincore/transaction"
	"0chain.net/smartcontract/dbs/event"
	"github.com/0chain/common/core/statecache"
	"github.com/0chain/common/core/util"
)

// CloneTxn returns a pristine copy of a transaction (as it was before execution).
func CloneTxn(t *transaction.Transaction) *transaction.Transaction {
	cp := *t
	cp.Status, cp.TransactionOutput, cp.OutputHash = 0, "", ""
	cp.SmartContractData = nil
	_ = cp.ComputeProperties()
	return &cp
}

// Fork returns a scratch copy of the block under construction: same header, same transactions so far, state forked at
// the current root on a new in-memory level, and a private (never committed) state cache. Executing on the fork leaves
// the original untouched.
func (b *Block) Fork() *Block {
	o := b.B
	nb := block.NewBlock(b.S.Chain.GetKey(), o.Round)
	nb.MinerID, nb.CreationDate, nb.PrevHash, nb.PrevBlock = o.MinerID, o.CreationDate, o.PrevHash, o.PrevBlock
	nb.SetRoundRandomSeed(o.GetRoundRandomSeed())
	nb.Hash = o.Hash + "-fork"
	nb.Txns = append([]*transaction.Transaction{}, o.Txns...)
	db := util.NewLevelNodeDB(util.NewMemoryNodeDB(), o.ClientState.GetNodeDB(), false)
	nb.SetClientState(util.NewMerklePatriciaTrie(db, util.Sequence(o.Round), o.ClientState.GetRoot(), statecache.NewEmpty()))
	f := &Block{B: nb, S: b.S}
	// an isolated cache stack: its own (empty) global cache, so nothing cached by the real block is visible
	f.cache = cacheHandle{bc: statecache.NewBlockCache(statecache.NewStateCache(), statecache.Block{Round: o.Round, Hash: nb.Hash, PrevHash: o.PrevHash})}
	return f
}

// Root of the block's current state.
func (b *Block) Root() string { return util.ToHex(b.B.ClientState.GetRoot()) }

// ExecEvents is Exec returning the events as well.
func (b *Block) ExecEvents(txn *transaction.Transaction) (Outcome, []event.Event) {
	n := len(b.B.Events)
	o := b.Exec(txn)
	if o.Rejected {
		return o, nil
	}
	return o, append([]event.Event{}, b.B.Events[n:]...)
}

// DryRun calls the contract of a transaction on a scratch transaction-level state (as updateState does before it
// decides between commit and rollback) and reports what the call had written or queued when it returned.
type DryResult struct {
	Output    string
	Err       error
	Writes    int // state nodes changed by the call
	Transfers int // transfers queued by the call
	Events    int
}

func (b *Block) DryRun(txn *transaction.Transaction) DryResult {
	t := CloneTxn(txn)
	f := b.Fork()
	cache := statecache.NewTransactionCache(f.cache.bc)
	cs := chain.CreateTxnMPT(f.B.ClientState, cache)
	sctx := b.S.Chain.NewStateContext(f.B, cs, t, nil)
	type res struct {
		out string
		err error
	}
	ch := make(chan res, 1)
	go func() {
		out, err := smartcontract.ExecuteSmartContract(t, sctx)
		ch <- res{out, err}
	}()
	select {
	case r := <-ch:
		return DryResult{Output: r.out, Err: r.err, Writes: cs.GetChangeCount(), Transfers: len(sctx.GetTransfers()) + len(sctx.GetSignedTransfers()), Events: len(sctx.GetEvents())}
	case <-time.After(2 * time.Minute):
		return DryResult{Err: context.DeadlineExceeded}
	}
}

// Replayed is the result of executing a closed block again from its parent, as a verifier does.
type Replayed struct {
	Root     string
	Changes  int
	Statuses []int
	Outputs  []string
	Events   []event.Event
	Err      error
}

// Replay executes the transactions of a closed block again on top of its parent with fresh state and cache objects.
// warm=false uses an isolated empty cache; warm=true goes through the chain's shared state cache (which the generator
// committed to), i.e. the values may be served from the cache.
func (s *Sim) Replay(closed *block.Block, warm bool) Replayed {
	prev := closed.PrevBlock
	nb := block.NewBlock(s.Chain.GetKey(), closed.Round)
	nb.MinerID, nb.CreationDate = closed.MinerID, closed.CreationDate
	nb.SetPreviousBlock(prev)
	nb.Round = closed.Round
	nb.SetRoundRandomSeed(closed.GetRoundRandomSeed())
	nb.Hash = closed.Hash
	bs := block.CreateStateWithPreviousBlock(prev, s.Chain.GetStateDB(), closed.Round)
	nb.SetClientState(bs)
	var bc *statecache.BlockCache
	if warm {
		// a different provisional hash, same parent: reads fall through to the parent's committed values
		bc = statecache.NewBlockCache(s.Chain.GetStateCache(), statecache.Block{Round: closed.Round, Hash: closed.Hash + "-replay", PrevHash: closed.PrevHash})
	} else {
		bc = statecache.NewBlockCache(statecache.NewStateCache(), statecache.Block{Round: closed.Round, Hash: closed.Hash, PrevHash: closed.PrevHash})
	}
	var r Replayed
	ctx, cancel := context.WithTimeout(context.Background(), 10*time.Minute)
	defer cancel()
	for _, orig := range closed.Txns {
		t := CloneTxn(orig)
		es, err := s.Chain.UpdateState(ctx, nb, bs, t, bc)
		if err != nil {
			r.Err = err
			return r
		}
		nb.Txns = append(nb.Txns, t)
		r.Statuses = append(r.Statuses, t.Status)
		r.Outputs = append(r.Outputs, t.TransactionOutput)
		r.Events = append(r.Events, es...)
	}
	r.Root = util.ToHex(bs.GetRoot())
	r.Changes = bs.GetChangeCount()
	return r
}

// ShadowAtOpen returns a long-lived scratch copy of a block that has no transactions yet. Unlike Fork, whose state is
// layered on the open block's own node DB (from which the block deletes replaced nodes as it goes on), the shadow is
// layered on the closed parent's state, which no longer changes; it can therefore be kept and executed side by side with
// the block for the whole life of the block.
func (b *Block) ShadowAtOpen() *Block {
	o := b.B
	if len(o.Txns) != 0 {
		panic("ShadowAtOpen on a block that already has transactions")
	}
	prev := o.PrevBlock
	nb := block.NewBlock(b.S.Chain.GetKey(), o.Round)
	nb.MinerID, nb.CreationDate, nb.PrevHash, nb.PrevBlock = o.MinerID, o.CreationDate, o.PrevHash, o.PrevBlock
	nb.SetRoundRandomSeed(o.GetRoundRandomSeed())
	nb.Hash = o.Hash + "-shadow"
	db := util.NewLevelNodeDB(util.NewMemoryNodeDB(), prev.ClientState.GetNodeDB(), false)
	nb.SetClientState(util.NewMerklePatriciaTrie(db, util.Sequence(o.Round), prev.ClientState.GetRoot(), statecache.NewEmpty()))
	f := &Block{B: nb, S: b.S}
	f.cache = cacheHandle{bc: statecache.NewBlockCache(statecache.NewStateCache(), statecache.Block{Round: o.Round, Hash: nb.Hash, PrevHash: o.PrevHash})}
	return f
}
