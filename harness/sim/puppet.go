package sim

import (
	"context"
	"encoding/json"
	"errors"
	"fmt"
	"net/url"

	cstate "0chain.net/chaincore/chain/state"
	"0chain.net/chaincore/smartcontract"
	"0chain.net/chaincore/state"
	"0chain.net/chaincore/transaction"
	"0chain.net/core/encryption"
	"github.com/0chain/common/core/currency"
)

// The puppet contract is a contract of the harness, registered in the chain's contract map at boot. It does what its
// input says - take the transaction's value, queue payouts from its own wallet, write state nodes, then succeed or
// fail - so that a generated transaction can put the chain's own transaction machinery (queued transfers applied after
// the call, all-or-nothing application, rollback of a failed call, fee and nonce handling) into situations the shipped
// contracts reach only through long histories: several queued transfers of which a later one cannot be paid, payouts
// at the balance boundaries, writes followed by a failure. It only ever moves tokens out of its own wallet or out of
// the sender's value, as the shipped contracts do.

// PuppetSC is the address of the puppet contract.
var PuppetSC = encryption.Hash("verif puppet contract")

// PuppetAction is the input of the puppet's "act" function.
type PuppetAction struct {
	TakeValue bool           `json:"take_value"` // queue sender -> contract for the transaction's value first
	Payouts   []PuppetPayout `json:"payouts"`    // then contract -> to for each
	Writes    []PuppetWrite  `json:"writes"`     // then insert / delete state nodes
	Fail      string         `json:"fail"`       // then fail with this message (chargeable failure) if not empty
}

type PuppetPayout struct {
	To     string `json:"to"`
	Amount uint64 `json:"amount"`
}

type PuppetWrite struct {
	Key    string `json:"key"`
	Val    string `json:"val"`
	Delete bool   `json:"delete"`
}

// puppetNode is a state node holding a string.
type puppetNode struct{ V string }

func (n *puppetNode) MarshalMsg(b []byte) ([]byte, error)   { return append(b, []byte(n.V)...), nil }
func (n *puppetNode) UnmarshalMsg(b []byte) ([]byte, error) { n.V = string(b); return nil, nil }

type puppet struct{}

func (puppet) Execute(t *transaction.Transaction, fn string, input []byte, balances cstate.StateContextI) (string, error) {
	if fn != "act" {
		return "", errors.New("puppet: unknown function " + fn)
	}
	var a PuppetAction
	if err := json.Unmarshal(input, &a); err != nil {
		return "", fmt.Errorf("puppet: %v", err)
	}
	if a.TakeValue && t.Value > 0 {
		if err := balances.AddTransfer(state.NewTransfer(t.ClientID, t.ToClientID, t.Value)); err != nil {
			return "", err
		}
	}
	for _, p := range a.Payouts {
		if err := balances.AddTransfer(state.NewTransfer(t.ToClientID, p.To, currency.Coin(p.Amount))); err != nil {
			return "", err
		}
	}
	for _, w := range a.Writes {
		key := PuppetSC + ":" + w.Key
		if w.Delete {
			if _, err := balances.DeleteTrieNode(key); err != nil {
				return "", err
			}
			continue
		}
		if _, err := balances.InsertTrieNode(key, &puppetNode{V: w.Val}); err != nil {
			return "", err
		}
	}
	if a.Fail != "" {
		return "", errors.New(a.Fail)
	}
	return "done", nil
}

func (puppet) GetHandlerStats(ctx context.Context, params url.Values) (interface{}, error) {
	return "", nil
}
func (puppet) GetExecutionStats() map[string]interface{} { return map[string]interface{}{} }
func (puppet) GetName() string                           { return "verifpuppet" }
func (puppet) GetAddress() string                        { return PuppetSC }
func (puppet) GetCostTable(balances cstate.StateContextI) (map[string]int, error) {
	return map[string]int{"act": 100}, nil
}

func registerPuppet() { smartcontract.ContractMap[PuppetSC] = puppet{} }

// PuppetValue reads a node the puppet wrote ("" and false when absent).
func (v *View) PuppetValue(key string) (string, bool) {
	var n puppetNode
	if err := v.Node(PuppetSC+":"+key, &n); err != nil {
		return "", false
	}
	return n.V, true
}

// PuppetCall builds a call of the puppet.
func (h *History) PuppetCall(from *Wallet, a PuppetAction, value, fee currency.Coin) *transaction.Transaction {
	return h.Call(from, PuppetSC, "act", a, value, fee)
}

// PuppetExpect computes the balance deltas an APPLIED SUCCESSFUL puppet call must produce (account id -> signed delta),
// fee included, from the transaction alone.
func PuppetExpect(txn *transaction.Transaction) (map[string]int64, error) {
	var d struct {
		Input PuppetAction `json:"input"`
	}
	if err := json.Unmarshal([]byte(txn.TransactionData), &d); err != nil {
		return nil, err
	}
	out := map[string]int64{}
	if d.Input.TakeValue {
		out[txn.ClientID] -= int64(txn.Value)
		out[PuppetSC] += int64(txn.Value)
	}
	for _, p := range d.Input.Payouts {
		out[PuppetSC] -= int64(p.Amount)
		out[p.To] += int64(p.Amount)
	}
	out[txn.ClientID] -= int64(txn.Fee)
	out[MinerSC] += int64(txn.Fee)
	return out, nil
}

// PuppetMonitor checks every applied puppet call: a successful one moved exactly what it queued (all of it), a failed one
// only the fee.
func PuppetMonitor(viol func(key, format string, a ...interface{}) error) Monitor {
	return func(h *History, txn *transaction.Transaction, o Outcome, before, after *Snapshot) error {
		if txn.ToClientID != PuppetSC || txn.TransactionType != transaction.TxnTypeSmartContract || o.Rejected {
			return nil
		}
		want, err := PuppetExpect(txn)
		if err != nil {
			return nil // not a well-formed puppet input: the call fails, covered by the general oracles
		}
		if o.Failed {
			want = map[string]int64{txn.ClientID: -int64(txn.Fee), MinerSC: int64(txn.Fee)}
		}
		for _, id := range h.KnownIDs() {
			got := int64(after.Bal[id]) - int64(before.Bal[id])
			if got != want[id] {
				return viol("queued-transfers-not-applied-as-a-whole", "puppet call (%s) with value %d fee %d: balance of %s changed by %d, the transfers the call queued add up to %d for that account (input %.200s)",
					map[bool]string{true: "failed", false: "ok"}[o.Failed], txn.Value, txn.Fee, h.Label(id), got, want[id], txn.TransactionData)
			}
		}
		return nil
	}
}
