// Package sim is engine E1: a full chain booted in-process (real config, real
// RocksDB state DB, real contracts), on which checks execute generated
// transaction histories through Chain.UpdateState exactly as a block generator
// and a verifier do.
package sim

import (
	"context"
	"encoding/hex"
	"encoding/json"
	"fmt"
	"os"
	"path/filepath"
	"strings"
	"sync"
	"time"

	"0chain.net/chaincore/block"
	"0chain.net/chaincore/chain"
	"0chain.net/chaincore/client"
	"0chain.net/chaincore/node"
	"0chain.net/chaincore/round"
	"0chain.net/chaincore/state"
	"0chain.net/chaincore/transaction"
	"0chain.net/core/common"
	"0chain.net/core/config"
	"0chain.net/core/encryption"
	"0chain.net/core/memorystore"
	"0chain.net/core/viper"
	"0chain.net/smartcontract/dbs/event"
	"0chain.net/smartcontract/faucetsc"
	"0chain.net/smartcontract/minersc"
	"0chain.net/smartcontract/setupsc"
	"0chain.net/smartcontract/storagesc"
	"0chain.net/smartcontract/zcnsc"
	"github.com/0chain/common/core/currency"
	"verifharness/vkeys"
	"verifharness/vkit"
	"verifharness/vlog"
)

// RepoConfigDir is where the shipped configuration is read from.
var RepoConfigDir = "/repo/docker.local/config"

// Wallet is a key pair the harness owns.
type Wallet struct {
	Name      string
	Scheme    *encryption.BLS0ChainScheme
	ID        string
	PublicKey string
}

func NewWallet(role string, i int) *Wallet {
	s := vkeys.BLS(vkit.Seed(), role, i)
	return &Wallet{Name: fmt.Sprintf("%s%d", role, i), Scheme: s, ID: vkeys.ID(s.GetPublicKey()), PublicKey: s.GetPublicKey()}
}

// Sim is the booted chain plus the identities the harness controls.
type Sim struct {
	Chain    *chain.Chain
	Genesis  *block.Block
	Workdir  string
	Owner    *Wallet
	Clients  []*Wallet // funded in genesis
	Miners   []string  // ids of the genesis magic block
	Sharders []string
	MB       *block.MagicBlock
	Funding  currency.Coin

	mu  sync.Mutex
	seq int64
}

// Options that must be fixed before the (single) boot of a process.
type Options struct {
	Clients     int
	ClientFunds currency.Coin
	ViewChange  bool
	// EventDb attaches an in-memory (sqlite) event database after genesis, so that the chain emits the per-user events too.
	EventDb bool
	// extra "key: value" overrides applied to 0chain.yaml / sc.yaml text (old -> new)
	ChainYAMLReplace map[string]string
	SCYAMLReplace    map[string]string
}

var (
	bootOnce sync.Once
	theSim   *Sim
	bootErr  error
)

// Boot boots the chain once per process.
func Boot(opt Options) (*Sim, error) {
	bootOnce.Do(func() { theSim, bootErr = boot(opt) })
	return theSim, bootErr
}

const shippedChainOwner = "edb90b850f2e7e7cbd0a1fa370fdcc5cd378ffbec95363a7bc0e5a98b8ba5759"
const shippedSCOwner = "1746b06bb09f55ee01b33b5e2e055d6cc7a900cb57c0a3a5eaabb8a0e7745802"

func boot(opt Options) (s *Sim, err error) {
	defer func() {
		if r := recover(); r != nil {
			err = fmt.Errorf("boot panic: %v", r)
		}
	}()
	if opt.Clients == 0 {
		opt.Clients = 8
	}
	if opt.ClientFunds == 0 {
		opt.ClientFunds = 1e15 // 100k ZCN each
	}
	vlog.Quiet()
	wd, err := os.MkdirTemp("", "verif-sim-")
	if err != nil {
		return nil, err
	}
	for _, d := range []string{"config", "data/rocksdb/state", "log"} {
		if err := os.MkdirAll(filepath.Join(wd, d), 0o755); err != nil {
			return nil, err
		}
	}
	owner := NewWallet("owner", 0)
	rd := func(name string) string {
		b, e := os.ReadFile(filepath.Join(RepoConfigDir, name))
		if e != nil {
			panic(e)
		}
		return string(b)
	}
	cy := rd("0chain.yaml")
	cy = strings.ReplaceAll(cy, shippedChainOwner, owner.ID)
	cy = strings.ReplaceAll(cy, "multisig: false", "multisig: true")
	cy = strings.ReplaceAll(cy, "vesting: false", "vesting: true")
	cy = strings.ReplaceAll(cy, "timeout: 8000ms", "timeout: 600000ms") // a loaded machine must not turn slow calls into rejected txns
	cy = strings.ReplaceAll(cy, "console: true", "console: false")
	if opt.ViewChange {
		cy = strings.ReplaceAll(cy, "view_change: false", "view_change: true")
	}
	for k, v := range opt.ChainYAMLReplace {
		cy = strings.ReplaceAll(cy, k, v)
	}
	sy := strings.ReplaceAll(rd("sc.yaml"), shippedSCOwner, owner.ID)
	for k, v := range opt.SCYAMLReplace {
		sy = strings.ReplaceAll(sy, k, v)
	}
	if err := os.WriteFile(filepath.Join(wd, "config", "0chain.yaml"), []byte(cy), 0o644); err != nil {
		return nil, err
	}
	if err := os.WriteFile(filepath.Join(wd, "config", "sc.yaml"), []byte(sy), 0o644); err != nil {
		return nil, err
	}
	config.Configuration().DeploymentMode = 2
	config.SetupDefaultConfig()
	config.SetupConfig(wd)
	config.SetupSmartContractConfig(wd)
	vlog.Quiet()
	config.Configuration().ChainID = viper.GetString("server_chain.id")
	transaction.SetTxnTimeout(int64(viper.GetInt("server_chain.transaction.timeout")))
	config.SetServerChainID(config.Configuration().ChainID)
	common.SetupRootContext(node.GetNodeContext())
	ctx := common.GetRootContext()

	ms := memorystore.GetStorageProvider()
	chain.SetupEntity(ms, wd)
	round.SetupEntity(ms)
	round.SetupVRFShareEntity(ms)
	block.SetupEntity(ms)
	block.SetupBlockSummaryEntity(ms)
	block.SetupStateChange(ms)
	state.SetupPartialState(ms)
	state.SetupStateNodes(ms)
	client.SetupEntity(ms)
	transaction.SetupEntity(ms)
	setupsc.SetupSmartContracts()
	registerPuppet()

	c := chain.NewChainFromConfig()
	c.SetupStateCache()
	chain.SetServerChain(c)

	// genesis magic block as shipped
	mbBytes, err := os.ReadFile(filepath.Join(RepoConfigDir, "b0magicBlock_4_miners_2_sharders.json"))
	if err != nil {
		return nil, err
	}
	mb := block.NewMagicBlock()
	if err := mb.Decode(mbBytes); err != nil {
		return nil, fmt.Errorf("magic block: %v", err)
	}
	mb.Hash = mb.GetHash()

	s = &Sim{Chain: c, Workdir: wd, Owner: owner, MB: mb, Funding: opt.ClientFunds}
	for _, k := range mb.Miners.Keys() {
		s.Miners = append(s.Miners, k)
	}
	for _, k := range mb.Sharders.Keys() {
		s.Sharders = append(s.Sharders, k)
	}
	sortStrings(s.Miners)
	sortStrings(s.Sharders)

	// genesis distribution: contract wallets pre-funded as in the shipped file, clients funded out of the miner contract's share
	var clientStates []state.IDTokens
	clientStates = append(clientStates, state.IDTokens{ID: owner.ID, Tokens: opt.ClientFunds})
	for i := 0; i < opt.Clients; i++ {
		w := NewWallet("client", i)
		s.Clients = append(s.Clients, w)
		clientStates = append(clientStates, state.IDTokens{ID: w.ID, Tokens: opt.ClientFunds})
	}
	for _, id := range append(append([]string{}, s.Miners...), s.Sharders...) {
		clientStates = append(clientStates, state.IDTokens{ID: id, Tokens: 1e12})
	}
	const (
		minerShare   = 16e17
		storageShare = 20e17
		faucetShare  = 2e16
	)
	zcnShare := currency.Coin(config.MaxTokenSupply) - minerShare - storageShare - faucetShare
	init := state.NewInitStates()
	init.States = []state.InitState{
		{ID: minersc.ADDRESS, Tokens: minerShare, State: clientStates},
		{ID: storagesc.ADDRESS, Tokens: storageShare},
		{ID: faucetsc.ADDRESS, Tokens: faucetShare},
		{ID: zcnsc.ADDRESS, Tokens: zcnShare},
	}
	go c.StartLFMBWorker(ctx)
	gr, gb := c.GenerateGenesisBlock(viper.GetString("server_chain.genesis_block.id"), mb, init)
	c.AddRound(gr)
	c.AddGenesisBlock(gb)
	s.Genesis = gb
	if opt.EventDb {
		edb, e := event.NewInMemoryEventDb(config.DbAccess{}, config.DbSettings{})
		if e != nil {
			return nil, fmt.Errorf("event db: %v", e)
		}
		c.EventDb = edb
	}
	return s, nil
}

func sortStrings(a []string) {
	for i := 1; i < len(a); i++ {
		for j := i; j > 0 && a[j] < a[j-1]; j-- {
			a[j], a[j-1] = a[j-1], a[j]
		}
	}
}

// ---------------------------------------------------------------------------
// blocks

// Block is a block under construction (or closed) together with its caches.
type Block struct {
	B      *block.Block
	S      *Sim
	closed bool
	cache  cacheHandle
}

// BaseTime is the synthetic clock origin (2023-11-14): transaction timestamps lie in the past.
const BaseTime = common.Timestamp(1700000000)

func (s *Sim) next() int64 {
	s.mu.Lock()
	defer s.mu.Unlock()
	s.seq++
	return s.seq
}

// NewBlock opens a block on top of prev, generated by the given miner.
func (s *Sim) NewBlock(prev *block.Block, rnd int64, minerID string, ts common.Timestamp) *Block {
	b := block.NewBlock(s.Chain.GetKey(), rnd)
	b.MinerID = minerID
	b.CreationDate = ts
	b.SetPreviousBlock(prev)
	b.Round = rnd // rounds may be skipped (SetPreviousBlock sets prev+1)
	b.SetRoundRandomSeed(int64(encryptionSeed(prev.Hash, rnd)))
	// a unique provisional hash keeps the state caches of forked histories apart
	b.Hash = encryption.Hash(fmt.Sprintf("verif-block|%d|%d|%s", s.next(), rnd, prev.Hash))
	bs := block.CreateStateWithPreviousBlock(prev, s.Chain.GetStateDB(), rnd)
	b.SetClientState(bs)
	b.ClientStateHash = prev.ClientStateHash
	blk := &Block{B: b, S: s}
	blk.cache = newCache(s, b)
	return blk
}

func encryptionSeed(h string, r int64) uint32 {
	x := encryption.RawHash(fmt.Sprintf("%s|%d", h, r))
	return uint32(x[0])<<24 | uint32(x[1])<<16 | uint32(x[2])<<8 | uint32(x[3])
}

// Outcome of one executed transaction.
type Outcome struct {
	Err      error  // != nil: rejected, nothing applied
	Status   int    // transaction.TxnSuccess / TxnError when applied
	Output   string
	Events   int
	Rejected bool
	Failed   bool // applied with a chargeable failure
}

// Exec runs one transaction against the block exactly as generation/verification does.
func (b *Block) Exec(txn *transaction.Transaction) Outcome {
	if b.closed {
		panic("exec on closed block")
	}
	ctx, cancel := context.WithTimeout(context.Background(), 5*time.Minute)
	defer cancel()
	es, err := b.S.Chain.UpdateState(ctx, b.B, b.B.ClientState, txn, b.cache.bc)
	if err != nil {
		return Outcome{Err: err, Rejected: true}
	}
	txn.OutputHash = txn.ComputeOutputHash()
	b.B.Txns = append(b.B.Txns, txn)
	b.B.Events = append(b.B.Events, es...)
	return Outcome{Status: txn.Status, Output: txn.TransactionOutput, Events: len(es), Failed: txn.Status == transaction.TxnError}
}

// Close finishes the block: state hash, change count, hash, state status, cache commit.
func (b *Block) Close() *block.Block {
	if b.closed {
		return b.B
	}
	b.closed = true
	bb := b.B
	bb.ClientStateHash = bb.ClientState.GetRoot()
	bb.SetStateChangesCount(bb.ClientState)
	bb.SetStateStatus(block.StateSuccessful)
	bb.HashBlock()
	b.cache.commit(bb.Hash)
	return bb
}

// ---------------------------------------------------------------------------
// transactions

// Txn builds a transaction as a client SDK would (hash over the contents, properties computed).
func (s *Sim) Txn(from *Wallet, to string, value, fee currency.Coin, nonce int64, ts common.Timestamp, tp int, data string) *transaction.Transaction {
	t := transaction.Provider().(*transaction.Transaction)
	t.ClientID = from.ID
	t.PublicKey = from.PublicKey
	t.ToClientID = to
	t.Value = value
	t.Fee = fee
	t.Nonce = nonce
	t.CreationDate = ts
	t.TransactionType = tp
	t.TransactionData = data
	t.ChainID = config.GetServerChainID()
	t.Hash = t.ComputeHash()
	_ = t.ComputeProperties()
	return t
}

// SCTxn builds a smart-contract call.
func (s *Sim) SCTxn(from *Wallet, scAddress, fn string, input interface{}, value, fee currency.Coin, nonce int64, ts common.Timestamp) *transaction.Transaction {
	var raw json.RawMessage
	switch v := input.(type) {
	case nil:
		raw = json.RawMessage("{}")
	case string:
		raw = json.RawMessage(v)
	case []byte:
		raw = json.RawMessage(v)
	default:
		b, err := json.Marshal(v)
		if err != nil {
			panic(err)
		}
		raw = b
	}
	data, _ := json.Marshal(struct {
		Name  string          `json:"name"`
		Input json.RawMessage `json:"input"`
	}{fn, raw})
	return s.Txn(from, scAddress, value, fee, nonce, ts, transaction.TxnTypeSmartContract, string(data))
}

// HexID is a helper for ids of things that are not wallets.
func HexID(s string) string { return hex.EncodeToString(encryption.RawHash(s)) }
