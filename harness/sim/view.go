package sim

import (
	"context"
	"fmt"

	"0chain.net/chaincore/block"
	"0chain.net/chaincore/state"
	"0chain.net/core/encryption"
	"github.com/0chain/common/core/statecache"
	"github.com/0chain/common/core/util"
)

// View is an uncached read-only view of a block's state (a fresh trie handle on
// the block's current root, so nothing a state cache holds can influence it).
type View struct {
	mpt *util.MerklePatriciaTrie
}

// ViewOf opens a view on the block's current state root.
func ViewOf(b *block.Block) *View {
	root := b.ClientState.GetRoot()
	return &View{mpt: util.NewMerklePatriciaTrie(b.ClientState.GetNodeDB(), util.Sequence(b.Round), root, statecache.NewEmpty())}
}

func (v *View) Root() string { return util.ToHex(v.mpt.GetRoot()) }

// Account reads an account leaf (ok=false when absent).
func (v *View) Account(id string) (state.State, bool) {
	var s state.State
	err := v.mpt.GetNodeValue(util.Path(id), &s)
	if err != nil {
		return state.State{}, false
	}
	return s, true
}

// Balance is the balance of an account (0 when absent).
func (v *View) Balance(id string) uint64 {
	s, _ := v.Account(id)
	return uint64(s.Balance)
}

// Node reads a contract node by its key.
func (v *View) Node(key string, out util.MPTSerializable) error {
	return v.mpt.GetNodeValue(util.Path(encryption.Hash(key)), out)
}

// RawNode returns the raw bytes stored under a contract key (nil when absent).
func (v *View) RawNode(key string) []byte {
	b, err := v.mpt.GetNodeValueRaw(util.Path(encryption.Hash(key)))
	if err != nil {
		return nil
	}
	return b
}

// Leaves returns path -> raw value of every leaf of the state.
func (v *View) Leaves() (map[string][]byte, error) {
	out := map[string][]byte{}
	err := v.mpt.Iterate(context.Background(), func(ctx context.Context, path util.Path, key util.Key, node util.Node) error {
		vn, ok := node.(*util.ValueNode)
		if !ok || node == nil {
			if node == nil {
				return fmt.Errorf("missing node at path %s", string(path))
			}
			return nil
		}
		out[string(path)] = append([]byte{}, vn.GetValueBytes()...)
		return nil
	}, util.NodeTypeValueNode)
	return out, err
}

// IsAccountLeaf tells whether a leaf value has the layout of an account state.
func IsAccountLeaf(val []byte) (state.State, bool) {
	if len(val) != 56 {
		return state.State{}, false
	}
	var s state.State
	if err := s.Decode(val); err != nil {
		return state.State{}, false
	}
	return s, true
}
