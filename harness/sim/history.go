package sim

import (
	"encoding/json"
	"fmt"
	"sort"

	"0chain.net/chaincore/block"
	"0chain.net/chaincore/transaction"
	"0chain.net/core/common"
	"0chain.net/smartcontract/faucetsc"
	"0chain.net/smartcontract/minersc"
	"0chain.net/smartcontract/multisigsc"
	"0chain.net/smartcontract/storagesc"
	"0chain.net/smartcontract/vestingsc"
	"0chain.net/smartcontract/zcnsc"
	"github.com/0chain/common/core/currency"
)

// Contract addresses.
var (
	MinerSC    = minersc.ADDRESS
	StorageSC  = storagesc.ADDRESS
	FaucetSC   = faucetsc.ADDRESS
	ZcnSC      = zcnsc.ADDRESS
	VestingSC  = vestingsc.ADDRESS
	MultisigSC = multisigsc.Address
)

// Step is one executed (or rejected) transaction of a history, in a form that
// can be written out and replayed without any library.
type Step struct {
	Round    int64  `json:"round"`
	Time     int64  `json:"time"`
	From     string `json:"from"`
	To       string `json:"to"`
	Type     int    `json:"type"`
	Nonce    int64  `json:"nonce"`
	Value    uint64 `json:"value"`
	Fee      uint64 `json:"fee"`
	Data     string `json:"data"`
	Outcome  string `json:"outcome"` // ok | failed | rejected
	Message  string `json:"message,omitempty"`
	BlockEnd bool   `json:"block_end,omitempty"`
}

// Snapshot of the balances and nonces of the known accounts.
type Snapshot struct {
	Bal   map[string]uint64
	Nonce map[string]int64
	Root  string
}

// Monitor observes every executed transaction.
type Monitor func(h *History, txn *transaction.Transaction, o Outcome, before, after *Snapshot) error

// History is one generated sequence of blocks and transactions on top of a base block.
type History struct {
	S     *Sim
	Base  *block.Block
	Cur   *Block
	Round int64
	Now   common.Timestamp
	// Known maps account id -> label for every account the generator may touch.
	Known    map[string]string
	order    []string
	Steps    []Step
	Monitors []Monitor
	Applied  int
	// TxnHashes of every transaction executed (applied or not).
	TxnHashes []string
	Failed   int
	Rejected int
	// MinerIdx rotates the generator of blocks.
	MinerIdx int
	last     *Snapshot
}

// NewHistory starts a history on top of base with a first open block.
func (s *Sim) NewHistory(base *block.Block) *History {
	h := &History{S: s, Base: base, Round: base.Round, Now: BaseTime + common.Timestamp(base.Round*2), Known: map[string]string{}}
	if base.CreationDate > h.Now {
		h.Now = base.CreationDate
	}
	for _, a := range []struct{ id, n string }{{MinerSC, "minersc"}, {StorageSC, "storagesc"}, {FaucetSC, "faucetsc"}, {ZcnSC, "zcnsc"}, {VestingSC, "vestingsc"}, {MultisigSC, "multisigsc"}, {PuppetSC, "puppetsc"}, {s.Owner.ID, "owner"}} {
		h.Know(a.id, a.n)
	}
	for i, c := range s.Clients {
		h.Know(c.ID, fmt.Sprintf("client%d", i))
	}
	for i, id := range s.Miners {
		h.Know(id, fmt.Sprintf("miner%d", i))
	}
	for i, id := range s.Sharders {
		h.Know(id, fmt.Sprintf("sharder%d", i))
	}
	h.open(1, 2)
	return h
}

// Know registers an account the monitors should watch.
func (h *History) Know(id, label string) {
	if _, ok := h.Known[id]; !ok {
		h.Known[id] = label
		h.order = append(h.order, id)
		h.last = nil
	}
}

// Label of an account id.
func (h *History) Label(id string) string {
	if l, ok := h.Known[id]; ok {
		return l
	}
	if len(id) > 8 {
		return id[:8]
	}
	return id
}

func (h *History) open(rounds int64, seconds int64) {
	prev := h.Base
	if h.Cur != nil {
		prev = h.Cur.B
	}
	h.Round += rounds
	h.Now += common.Timestamp(seconds)
	miner := h.S.Miners[h.MinerIdx%len(h.S.Miners)]
	h.MinerIdx++
	h.Cur = h.S.NewBlock(prev, h.Round, miner, h.Now)
}

// NextBlock closes the current block and opens the next one.
func (h *History) NextBlock(rounds, seconds int64) *block.Block {
	closed := h.Cur.Close()
	if len(h.Steps) > 0 {
		h.Steps[len(h.Steps)-1].BlockEnd = true
	}
	h.open(rounds, seconds)
	h.last = nil
	return closed
}

// Snap reads balances and nonces of all known accounts from the current block state, uncached.
func (h *History) Snap() *Snapshot {
	v := ViewOf(h.Cur.B)
	sn := &Snapshot{Bal: make(map[string]uint64, len(h.order)), Nonce: make(map[string]int64, len(h.order)), Root: v.Root()}
	for _, id := range h.order {
		st, ok := v.Account(id)
		if ok {
			sn.Bal[id] = uint64(st.Balance)
			sn.Nonce[id] = st.Nonce
		}
	}
	return sn
}

// StateNonce is the nonce recorded in state for an account.
func (h *History) StateNonce(id string) int64 {
	st, _ := ViewOf(h.Cur.B).Account(id)
	return st.Nonce
}

// Tx builds the next in-order transaction of a wallet (nonce = state nonce + 1).
func (h *History) Tx(from *Wallet, to string, value, fee currency.Coin, tp int, data string) *transaction.Transaction {
	return h.S.Txn(from, to, value, fee, h.StateNonce(from.ID)+1, h.Now, tp, data)
}

// Call builds the next in-order contract call of a wallet.
func (h *History) Call(from *Wallet, sc, fn string, input interface{}, value, fee currency.Coin) *transaction.Transaction {
	return h.S.SCTxn(from, sc, fn, input, value, fee, h.StateNonce(from.ID)+1, h.Now)
}

// Do executes a transaction in the current block and runs the monitors.
func (h *History) Do(txn *transaction.Transaction) (Outcome, error) {
	before := h.last
	if before == nil {
		before = h.Snap()
	}
	h.TxnHashes = append(h.TxnHashes, txn.Hash)
	o := h.Cur.Exec(txn)
	after := h.Snap()
	h.last = after
	st := Step{Round: h.Round, Time: int64(txn.CreationDate), From: txn.ClientID, To: txn.ToClientID, Type: txn.TransactionType,
		Nonce: txn.Nonce, Value: uint64(txn.Value), Fee: uint64(txn.Fee), Data: txn.TransactionData}
	switch {
	case o.Rejected:
		st.Outcome, st.Message = "rejected", o.Err.Error()
		h.Rejected++
	case o.Failed:
		st.Outcome, st.Message = "failed", o.Output
		h.Failed++
		h.Applied++
	default:
		st.Outcome = "ok"
		h.Applied++
	}
	h.Steps = append(h.Steps, st)
	for _, m := range h.Monitors {
		if err := m(h, txn, o, before, after); err != nil {
			return o, err
		}
	}
	return o, nil
}

// Render gives a compact human-readable form of the history (for violation messages and samples).
func (h *History) Render(max int) []string {
	var out []string
	start := 0
	if max > 0 && len(h.Steps) > max {
		start = len(h.Steps) - max
		out = append(out, fmt.Sprintf("... %d earlier steps", start))
	}
	for _, s := range h.Steps[start:] {
		what := "send"
		switch s.Type {
		case transaction.TxnTypeData:
			what = "data"
		case transaction.TxnTypeSmartContract:
			var d struct {
				Name string `json:"name"`
			}
			_ = json.Unmarshal([]byte(s.Data), &d)
			what = h.Label(s.To) + "." + d.Name
		}
		line := fmt.Sprintf("r%d %s %s->%s v=%d fee=%d n=%d: %s", s.Round, what, h.Label(s.From), h.Label(s.To), s.Value, s.Fee, s.Nonce, s.Outcome)
		if s.Message != "" {
			m := s.Message
			if len(m) > 80 {
				m = m[:80]
			}
			line += " (" + m + ")"
		}
		out = append(out, line)
	}
	return out
}

// JSON returns the history in the library-free replay format.
func (h *History) JSON() []byte {
	b, _ := json.MarshalIndent(h.Steps, "", " ")
	return b
}

// KnownIDs in registration order.
func (h *History) KnownIDs() []string { return append([]string{}, h.order...) }

// SumKnown adds the balances of the known accounts of a snapshot.
func (sn *Snapshot) SumKnown() uint64 {
	var s uint64
	for _, b := range sn.Bal {
		s += b
	}
	return s
}

// SortedKeys of a balance map.
func SortedKeys(m map[string]uint64) []string {
	k := make([]string, 0, len(m))
	for x := range m {
		k = append(k, x)
	}
	sort.Strings(k)
	return k
}
