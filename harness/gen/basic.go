// Package gen holds the rapid generators of transactions shared by the E1 checks.
package gen

import (
	"fmt"
	"math"
	"strings"

	"0chain.net/chaincore/transaction"
	"0chain.net/core/config"
	"0chain.net/core/encryption"
	"github.com/0chain/common/core/currency"
	"pgregory.net/rapid"
	"verifharness/sim"
)

// Env carries what the generators remember across the steps of one history.
type Env struct {
	H       *sim.History
	Past    []*transaction.Transaction // every transaction built so far (for replays)
	Fresh   []*sim.Wallet              // wallets created during the history
	Classes map[string]int
	X       map[string]interface{} // per-history scratch of the Extra generators
}

func NewEnv(h *sim.History) *Env { return &Env{H: h, Classes: map[string]int{}, X: map[string]interface{}{}} }

func (e *Env) note(c string) { e.Classes[c]++ }

// Note counts a generator class (for the Extra generators living in other packages).
func (e *Env) Note(c string) { e.note(c) }

// Wallets returns every wallet that can send (funded clients, owner, fresh ones).
func (e *Env) Wallets() []*sim.Wallet {
	w := append([]*sim.Wallet{}, e.H.S.Clients...)
	w = append(w, e.H.S.Owner)
	return append(w, e.Fresh...)
}

// Amount draws a value biased to the boundaries that matter for a sender with the given balance.
func Amount(t *rapid.T, label string, balance, fee uint64) currency.Coin {
	spend := uint64(0)
	if balance > fee {
		spend = balance - fee
	}
	switch rapid.IntRange(0, 13).Draw(t, label+"Kind") {
	case 0:
		return 0
	case 1:
		return 1
	case 2:
		return currency.Coin(spend)
	case 3:
		return currency.Coin(spend + 1)
	case 4:
		return currency.Coin(balance)
	case 5:
		if spend > 0 {
			return currency.Coin(spend - 1)
		}
		return 0
	case 6:
		return currency.Coin(config.MaxTokenSupply)
	case 7:
		return currency.Coin(config.MaxTokenSupply + 1)
	case 8:
		return currency.Coin(1 << 63)
	case 9:
		return currency.Coin(math.MaxUint64)
	case 10, 11:
		return currency.Coin(rapid.Uint64Range(1, 1e12).Draw(t, label))
	default:
		if spend == 0 {
			return 0
		}
		return currency.Coin(rapid.Uint64Range(1, spend).Draw(t, label))
	}
}

func fee(t *rapid.T) currency.Coin {
	switch rapid.IntRange(0, 5).Draw(t, "feeKind") {
	case 0:
		return 0
	case 1:
		return 1
	case 2:
		return currency.Coin(rapid.Uint64Range(1, 1e10).Draw(t, "fee"))
	case 3:
		return currency.Coin(1e10) // max_fee of the shipped config
	default:
		return currency.Coin(rapid.Uint64Range(1, 1e6).Draw(t, "fee"))
	}
}

func (e *Env) recipient(t *rapid.T, from *sim.Wallet) string {
	h := e.H
	switch rapid.IntRange(0, 10).Draw(t, "toKind") {
	case 10:
		// the same 64 hex digits in another letter case are still "a hash" for the transfer code
		id := strings.ToUpper(encryption.Hash(fmt.Sprintf("upper-%d", rapid.IntRange(0, 2).Draw(t, "upper"))))
		if rapid.Bool().Draw(t, "mixedCase") {
			id = id[:32] + strings.ToLower(id[32:])
		}
		h.Know(id, "ADDR-"+id[:6])
		return id
	case 0:
		return from.ID // self
	case 1:
		return sim.MinerSC
	case 2:
		return rapid.SampledFrom([]string{sim.StorageSC, sim.FaucetSC, sim.ZcnSC, sim.VestingSC, sim.MultisigSC}).Draw(t, "sc")
	case 3:
		// a fresh wallet the history can later send from
		w := sim.NewWallet("fresh", len(e.Fresh))
		e.Fresh = append(e.Fresh, w)
		h.Know(w.ID, w.Name)
		return w.ID
	case 4:
		id := encryption.Hash(fmt.Sprintf("nobody-%d", rapid.IntRange(0, 3).Draw(t, "nobody")))
		h.Know(id, "addr-"+id[:6])
		return id
	default:
		ws := e.Wallets()
		return ws[rapid.IntRange(0, len(ws)-1).Draw(t, "toWallet")].ID
	}
}

// Basic draws one transaction from the contract-independent families: sends, data, invalid types, faucet calls,
// garbage contract calls, and nonce games (replay, skip, past).
func (e *Env) Basic(t *rapid.T) *transaction.Transaction {
	h := e.H
	ws := e.Wallets()
	from := ws[rapid.IntRange(0, len(ws)-1).Draw(t, "from")]
	bal := sim.ViewOf(h.Cur.B).Balance(from.ID)
	f := fee(t)
	var txn *transaction.Transaction
	kind := rapid.SampledFrom([]string{"send", "send", "send", "data", "badtype", "pour", "pour", "refill", "garbage", "garbage", "replay", "skip", "past", "puppet", "puppet", "alias", "ghost", "aliasTo"}).Draw(t, "kind")
	switch kind {
	case "puppet":
		e.note("kind/puppet")
		return e.Puppet(t)
	case "alias":
		// the sender's own id in another letter case: hex decoding ignores case, the id string is what every
		// self-transfer guard and the balance cache key on. The real admission step (ComputeProperties ->
		// VerifyPublicKeyClientID) must refuse it; only if it does not is the transaction executed.
		to := from.ID
		if rapid.Bool().Draw(t, "aliasToOther") {
			to = e.recipient(t, from)
		}
		txn = h.Tx(from, to, Amount(t, "value", bal, uint64(f)), f, transaction.TxnTypeSend, "")
		alias := otherCase(from.ID, rapid.IntRange(0, 5).Draw(t, "aliasDigit"))
		txn.ClientID = alias
		txn.Hash = txn.ComputeHash()
		if err := txn.ComputeProperties(); err != nil || alias == from.ID {
			e.note("alias/refused-at-admission")
			txn = h.Tx(from, e.recipient(t, from), Amount(t, "value2", bal, uint64(f)), f, transaction.TxnTypeSend, "")
		} else {
			e.note("alias/ADMITTED")
		}
	case "aliasTo":
		// a send to an existing account's id with one letter (anywhere in the 64 digits) in upper case: not the
		// canonical spelling of any account, and the trie does not treat it as the lower-case one
		rcp := e.recipient(t, from)
		to := otherCase(rcp, rapid.IntRange(0, 40).Draw(t, "aliasLetter"))
		if to != rcp {
			e.note("aliasTo/respelled-recipient")
			// (the spelling is not registered with the history: a balance read under it would find the
			// lower-case account's leaf and every per-account oracle would count that account twice)
		}
		txn = h.Tx(from, to, Amount(t, "value", bal, uint64(f)), f, transaction.TxnTypeSend, "")
	case "ghost":
		// a sender the state has never seen (no account entry): value 0, fee 0, any nonce
		g := sim.NewWallet("ghost", rapid.IntRange(0, 2).Draw(t, "ghost"))
		h.Know(g.ID, g.Name)
		txn = h.Tx(g, e.recipient(t, g), 0, 0, rapid.SampledFrom([]int{transaction.TxnTypeSend, transaction.TxnTypeData}).Draw(t, "ghostType"), "")
		txn.Nonce = h.StateNonce(g.ID) + int64(rapid.SampledFrom([]int{1, 2, 1, 5, 0}).Draw(t, "ghostNonce"))
		txn.Hash = txn.ComputeHash()
	case "send":
		txn = h.Tx(from, e.recipient(t, from), Amount(t, "value", bal, uint64(f)), f, transaction.TxnTypeSend, "")
	case "data":
		txn = h.Tx(from, e.recipient(t, from), Amount(t, "value", bal, uint64(f)), f, transaction.TxnTypeData, rapid.StringN(0, 8, 16).Draw(t, "data"))
	case "badtype":
		txn = h.Tx(from, e.recipient(t, from), 0, f, rapid.SampledFrom([]int{1, 2, 3, 4, 11, 999, -1}).Draw(t, "type"), "")
	case "pour":
		txn = h.Call(from, sim.FaucetSC, "pour", nil, Amount(t, "value", bal, uint64(f)), f)
	case "refill":
		txn = h.Call(from, sim.FaucetSC, "refill", nil, Amount(t, "value", bal, uint64(f)), f)
	case "garbage":
		sc := rapid.SampledFrom([]string{sim.MinerSC, sim.StorageSC, sim.FaucetSC, sim.ZcnSC, sim.VestingSC, sim.MultisigSC, encryption.Hash("no such contract")}).Draw(t, "sc")
		fn := rapid.SampledFrom([]string{"nope", "", "pour", "add_miner", "new_allocation_request", "mint", "burn", "add", "register", "payFees", "update_settings", "stake_pool_lock", "collect_reward", "commit_connection"}).Draw(t, "fn")
		input := rapid.SampledFrom([]string{`{}`, `[]`, `null`, `"x"`, `{"id":"abc"}`, `{"provider_id":"00","provider_type":1}`, `{"a":18446744073709551616}`, `{"name":{}}`, `12`}).Draw(t, "input")
		txn = h.Call(from, sc, fn, input, Amount(t, "value", bal, uint64(f)), f)
		if rapid.IntRange(0, 5).Draw(t, "brokenJSON") == 0 {
			txn.TransactionData = `{"name":"` + fn + `","input":{` // not JSON at all
			txn.Hash = txn.ComputeHash()
			_ = txn.ComputeProperties()
		}
	case "replay":
		if len(e.Past) == 0 {
			return e.Basic(t)
		}
		old := e.Past[rapid.IntRange(0, len(e.Past)-1).Draw(t, "which")]
		cp := *old // the very same signed transaction again
		cp.Status, cp.TransactionOutput, cp.OutputHash = 0, "", ""
		txn = &cp
	case "skip":
		txn = h.Tx(from, e.recipient(t, from), 1, f, transaction.TxnTypeSend, "")
		txn.Nonce += int64(rapid.IntRange(1, 5).Draw(t, "ahead"))
		txn.Hash = txn.ComputeHash()
	case "past":
		txn = h.Tx(from, e.recipient(t, from), 1, f, transaction.TxnTypeSend, "")
		txn.Nonce -= int64(rapid.IntRange(1, 3).Draw(t, "behind"))
		txn.Hash = txn.ComputeHash()
	}
	e.note("kind/" + kind)
	if kind != "replay" {
		e.Past = append(e.Past, txn)
	}
	return txn
}

// FailingCall draws a contract call that is likely to fail chargeably: garbage, perturbed payloads, faucet beyond limits.
// Contract-specific late failures are added by the lib-based generators (see Extra).
func (e *Env) FailingCall(t *rapid.T) *transaction.Transaction {
	if len(Extra) > 0 && rapid.IntRange(0, 2).Draw(t, "useExtra") > 0 {
		x := Extra[rapid.IntRange(0, len(Extra)-1).Draw(t, "extra")]
		if txn := x(t, e); txn != nil {
			e.Past = append(e.Past, txn)
			return txn
		}
	}
	switch rapid.IntRange(0, 5).Draw(t, "semiValid") {
	case 1, 2:
		return e.SemiValid(t)
	case 4:
		e.note("fail/puppet")
		return e.Puppet(t)
	}
	h := e.H
	ws := e.Wallets()
	from := ws[rapid.IntRange(0, len(ws)-1).Draw(t, "from")]
	bal := sim.ViewOf(h.Cur.B).Balance(from.ID)
	f := fee(t)
	var txn *transaction.Transaction
	switch rapid.IntRange(0, 5).Draw(t, "failKind") {
	case 0:
		txn = h.Call(from, sim.FaucetSC, "pour", nil, currency.Coin(rapid.SampledFrom([]uint64{0, 1, 1e10, 1e12, 2e12, 1e13, 1e15, 4e18}).Draw(t, "pourValue")), f)
		e.note("fail/pour")
	case 1:
		txn = h.Call(from, sim.FaucetSC, "refill", nil, Amount(t, "value", bal, uint64(f)), f)
		e.note("fail/refill")
	case 2:
		txn = h.Call(from, sim.FaucetSC, "update-settings", `{"fields":{"pour_amount":"x","nope":"1"}}`, 0, f)
		e.note("fail/faucet-settings")
	default:
		sc := rapid.SampledFrom([]string{sim.MinerSC, sim.StorageSC, sim.FaucetSC, sim.ZcnSC, sim.VestingSC, sim.MultisigSC}).Draw(t, "sc")
		fn := rapid.SampledFrom([]string{"nope", "pour", "add_miner", "add_sharder", "addToDelegatePool", "deleteFromDelegatePool", "new_allocation_request", "mint", "burn", "add", "trigger", "unlock", "register", "vote", "payFees", "update_settings", "update_globals", "stake_pool_lock", "stake_pool_unlock", "collect_reward", "commit_connection", "add_blobber", "add_validator", "write_pool_lock", "read_pool_lock", "add-authorizer", "cancel_allocation", "kill_miner", "kill_blobber"}).Draw(t, "fn")
		input := rapid.SampledFrom([]string{`{}`, `[]`, `null`, `{"id":"abc"}`, `{"provider_id":"00","provider_type":1}`, `{"provider_id":"00","provider_type":3}`, `{"a":18446744073709551616}`, `{"name":{}}`, `{"allocation_id":"x"}`, `{"fields":{"a":"b"}}`, `{"pool_id":"p","destinations":[]}`, `{"id":"` + from.ID + `"}`}).Draw(t, "input")
		txn = h.Call(from, sc, fn, input, Amount(t, "value", bal, uint64(f)), f)
		e.note("fail/garbage")
	}
	e.Past = append(e.Past, txn)
	return txn
}

// Governance draws a settings update (by the owner or by a stranger) with several fields at once, valid and invalid mixed.
func (e *Env) Governance(t *rapid.T) *transaction.Transaction {
	h := e.H
	from := h.S.Owner
	if rapid.IntRange(0, 4).Draw(t, "stranger") == 0 {
		from = h.S.Clients[0]
	}
	type target struct{ sc, fn string; keys []string }
	tg := rapid.SampledFrom([]target{
		{sim.MinerSC, "update_globals", []string{"server_chain.block.max_block_size", "server_chain.block.generation.timeout", "server_chain.transaction.max_fee", "server_chain.block.replicators", "server_chain.health_check.show_counters", "nope.key", "server_chain.owner"}},
		{sim.MinerSC, "update_settings", []string{"max_n", "min_n", "max_s", "reward_rate", "share_ratio", "block_reward", "max_charge", "epoch", "num_miner_delegates_rewarded", "nope", "cost.add_miner"}},
		{sim.StorageSC, "update_settings", []string{"max_mint", "time_unit", "min_alloc_size", "max_challenge_completion_rounds", "min_blobber_capacity", "readpool.min_lock", "stakepool.kill_slash", "validator_reward", "nope", "cost.update_settings"}},
		{sim.FaucetSC, "update-settings", []string{"pour_amount", "max_pour_amount", "periodic_limit", "global_limit", "individual_reset", "global_reset", "nope", "cost.pour"}},
		{sim.ZcnSC, "update-global-config", []string{"min_mint", "min_burn", "min_stake", "max_fee", "percent_authorizers", "min_authorizers", "burn_address", "nope", "cost.mint"}},
		{sim.VestingSC, "vestingsc-update-settings", []string{"min_lock", "min_duration", "max_duration", "max_destinations", "max_description_length", "nope", "cost.add"}},
	}).Draw(t, "target")
	n := rapid.IntRange(1, 6).Draw(t, "fields")
	fields := map[string]string{}
	for i := 0; i < n; i++ {
		k := tg.keys[rapid.IntRange(0, len(tg.keys)-1).Draw(t, "key")]
		fields[k] = rapid.SampledFrom([]string{"1", "5", "0.5", "100", "x", "-1", "1h", "true", "", "99999999999999999999", "0.1", "3"}).Draw(t, "val")
		if rapid.IntRange(0, 7).Draw(t, "blankTwin") == 5 {
			// the same name once more with a surrounding blank and another value: whatever the contract makes of it,
			// it must make the same of it on every node
			fields[rapid.SampledFrom([]string{" " + k, k + " "}).Draw(t, "blankSpelling")] = rapid.SampledFrom([]string{"2", "7", "0.25", "200"}).Draw(t, "twinVal")
			e.note("governance/blank-twin")
		}
	}
	txn := h.Call(from, tg.sc, tg.fn, map[string]interface{}{"fields": fields}, 0, fee(t))
	e.note("governance/" + tg.fn)
	if len(fields) >= 2 {
		e.note("governance/multi-field")
	}
	e.Past = append(e.Past, txn)
	return txn
}

// Extra generators are registered by the contract-specific libraries (late failures, multi-step scripts).
var Extra []func(t *rapid.T, e *Env) *transaction.Transaction

// ---------------------------------------------------------------------------
// Semi-valid calls: a real function of the right contract, an input of the shape that function expects, ids that are
// well-formed but mostly name nothing, and a value that passes the usual minimum-lock checks. These calls get past
// the first validations of a contract and fail late (or succeed), which is where a contract has already written or
// queued a transfer.

type semi struct {
	sc, fn string
	inputs []string
}

var semiTable = []semi{
	{sim.StorageSC, "write_pool_lock", []string{`{"allocation_id":"$H"}`, `{"allocation_id":"$C"}`}},
	{sim.StorageSC, "read_pool_lock", []string{`{}`, `{"target_id":"$C"}`, `{"target_id":"$H"}`}},
	{sim.StorageSC, "read_pool_unlock", []string{`{}`}},
	{sim.StorageSC, "stake_pool_lock", []string{`{"provider_type":3,"provider_id":"$H"}`, `{"provider_type":4,"provider_id":"$C"}`}},
	{sim.StorageSC, "stake_pool_unlock", []string{`{"provider_type":3,"provider_id":"$H"}`}},
	{sim.StorageSC, "collect_reward", []string{`{"provider_type":3,"provider_id":"$H"}`}},
	{sim.StorageSC, "new_allocation_request", []string{
		`{"data_shards":1,"parity_shards":1,"size":1073741824,"owner_id":"$C","owner_public_key":"","blobbers":["$H","$H2"],"blobber_auth_tickets":["",""],"read_price_range":{"min":0,"max":70000000000},"write_price_range":{"min":0,"max":70000000000}}`,
		`{"data_shards":2,"parity_shards":1,"size":1073741824,"blobbers":["$H","$H2","$H3"],"blobber_auth_tickets":["","",""],"read_price_range":{"min":0,"max":70000000000},"write_price_range":{"min":0,"max":70000000000}}`,
		`{"data_shards":1,"parity_shards":1,"size":1,"blobbers":[],"read_price_range":{"min":0,"max":1},"write_price_range":{"min":0,"max":1}}`}},
	{sim.StorageSC, "update_allocation_request", []string{`{"id":"$H","extend":true}`, `{"id":"$H","size":1024,"add_blobber_id":"$H2"}`}},
	{sim.StorageSC, "cancel_allocation", []string{`{"allocation_id":"$H"}`}},
	{sim.StorageSC, "finalize_allocation", []string{`{"allocation_id":"$H"}`}},
	{sim.StorageSC, "kill_blobber", []string{`{"provider_id":"$H"}`}},
	{sim.StorageSC, "shutdown_blobber", []string{`{"provider_id":"$H"}`}},
	{sim.StorageSC, "add_blobber", []string{`{"id":"$C","url":"https://blobber$N.verif.test","capacity":10737418240,"terms":{"read_price":100000000,"write_price":1000000000},"stake_pool_settings":{"delegate_wallet":"$C2","num_delegates":5,"service_charge":0.1}}`,
		`{"id":"$C","url":"https://blobber$N.verif.test","capacity":1,"terms":{"read_price":1,"write_price":1},"stake_pool_settings":{"delegate_wallet":"$C","num_delegates":5,"service_charge":0.1}}`}},
	{sim.StorageSC, "blobber_health_check", []string{`{}`}},
	{sim.StorageSC, "free_allocation_request", []string{`{"recipient_public_key":"","marker":"{\"assigner\":\"$C\",\"recipient\":\"$C\",\"free_tokens\":1,\"nonce\":1,\"signature\":\"00\",\"blobbers\":[]}","blobbers":[]}`}},
	{sim.StorageSC, "add_free_storage_assigner", []string{`{"name":"$C","public_key":"","individual_limit":1,"total_limit":10}`}},
	{sim.StorageSC, "commit_settings_changes", []string{`{}`}},
	{sim.MinerSC, "addToDelegatePool", []string{`{"provider_type":1,"provider_id":"$M"}`, `{"provider_type":2,"provider_id":"$S"}`, `{"provider_type":1,"provider_id":"$H"}`}},
	{sim.MinerSC, "deleteFromDelegatePool", []string{`{"provider_type":1,"provider_id":"$M"}`, `{"provider_type":2,"provider_id":"$S"}`}},
	{sim.MinerSC, "collect_reward", []string{`{"provider_type":1,"provider_id":"$M"}`, `{"provider_type":2,"provider_id":"$S"}`}},
	{sim.MinerSC, "kill_miner", []string{`{"provider_id":"$M"}`, `{"provider_id":"$H"}`}},
	{sim.MinerSC, "kill_sharder", []string{`{"provider_id":"$S"}`}},
	{sim.MinerSC, "payFees", []string{`{"round":$R}`, `{"round":1}`}},
	{sim.MinerSC, "add_miner", []string{`{"id":"$C","n2n_host":"m$N.verif.test","host":"m$N.verif.test","port":7071,"public_key":"$K","short_name":"m$N","build_tag":"x","delegate_wallet":"$C2","service_charge":0.1,"number_of_delegates":5}`}},
	{sim.MinerSC, "add_sharder", []string{`{"id":"$C","n2n_host":"s$N.verif.test","host":"s$N.verif.test","port":7171,"public_key":"$K","short_name":"s$N","build_tag":"x","delegate_wallet":"$C2","service_charge":0.1,"number_of_delegates":5}`}},
	{sim.MinerSC, "contributeMpk", []string{`{"id":"$M","mpk":["aa","bb"]}`}},
	{sim.MinerSC, "shareSignsOrShares", []string{`{"id":"$M","share_or_sign":{}}`}},
	{sim.MinerSC, "wait", []string{`{}`}},
	{sim.MinerSC, "sharder_keep", []string{`{"id":"$S","n2n_host":"s.verif.test","public_key":""}`}},
	{sim.ZcnSC, "burn", []string{`{"ethereum_address":"0x$E"}`, `{"ethereum_address":""}`}},
	{sim.ZcnSC, "mint", []string{`{"ethereum_txn_id":"0x$E","amount":1000000,"nonce":$N,"signatures":[{"authorizer_id":"$H","signature":"00"}],"receiving_client_id":"$C"}`}},
	{sim.ZcnSC, "add-authorizer", []string{`{"public_key":"$K","url":"https://auth$N.verif.test","stake_pool_settings":{"delegate_wallet":"$C2","num_delegates":5,"service_charge":0.1}}`}},
	{sim.ZcnSC, "authorizer-health-check", []string{`{"id":"$C"}`}},
	{sim.ZcnSC, "delete-authorizer", []string{`{"id":"$H"}`}},
	{sim.ZcnSC, "collect_reward", []string{`{"provider_type":5,"provider_id":"$H"}`}},
	{sim.ZcnSC, "stake_pool_lock", []string{`{"provider_type":5,"provider_id":"$H"}`}},
	{sim.VestingSC, "add", []string{`{"description":"d","start_time":$T,"duration":600000000000,"destinations":[{"id":"$C2","amount":1000}]}`, `{"description":"d","start_time":$T,"duration":600000000000,"destinations":[{"id":"$C2","amount":900000000000000},{"id":"$C","amount":1}]}`}},
	{sim.VestingSC, "trigger", []string{`{"pool_id":"$H"}`}},
	{sim.VestingSC, "unlock", []string{`{"pool_id":"$H"}`}},
	{sim.VestingSC, "stop", []string{`{"pool_id":"$H","destination":"$C"}`}},
	{sim.VestingSC, "delete", []string{`{"pool_id":"$H"}`}},
	{sim.FaucetSC, "pour", []string{`{}`}},
	{sim.FaucetSC, "refill", []string{`{}`}},
	{sim.MultisigSC, "register", []string{`{"id":"$C","signature_scheme":"bls0chain","public_key":"$K","signer_threshold_ids":["a","b"],"signer_public_keys":["$K","$K"],"num_required":2}`}},
}

// SemiValid draws one semi-valid contract call.
func (e *Env) SemiValid(t *rapid.T) *transaction.Transaction {
	h := e.H
	ws := e.Wallets()
	from := ws[rapid.IntRange(0, len(ws)-1).Draw(t, "from")]
	other := ws[rapid.IntRange(0, len(ws)-1).Draw(t, "other")]
	row := semiTable[rapid.IntRange(0, len(semiTable)-1).Draw(t, "semiFn")]
	in := row.inputs[rapid.IntRange(0, len(row.inputs)-1).Draw(t, "semiInput")]
	n := rapid.IntRange(0, 3).Draw(t, "n")
	rep := strings.NewReplacer(
		"$H2", encryption.Hash(fmt.Sprintf("bogus-b-%d", n)), "$H3", encryption.Hash(fmt.Sprintf("bogus-c-%d", n)),
		"$H", encryption.Hash(fmt.Sprintf("bogus-%d", n)), "$C2", other.ID, "$C", from.ID, "$K", from.PublicKey,
		"$M", h.S.Miners[n%len(h.S.Miners)], "$S", h.S.Sharders[n%len(h.S.Sharders)],
		"$E", encryption.Hash(fmt.Sprintf("eth-%d", n))[:40], "$N", fmt.Sprint(n), "$R", fmt.Sprint(h.Round), "$T", fmt.Sprint(int64(h.Now)+int64(n)*100))
	in = rep.Replace(in)
	bal := sim.ViewOf(h.Cur.B).Balance(from.ID)
	f := fee(t)
	// values that pass the usual minimum locks come first
	var value currency.Coin
	switch rapid.IntRange(0, 5).Draw(t, "semiValue") {
	case 0, 1:
		value = currency.Coin(rapid.SampledFrom([]uint64{1e10, 1e9, 5e10, 1e11, 1e8}).Draw(t, "lockLike"))
	case 2:
		value = 0
	default:
		value = Amount(t, "value", bal, uint64(f))
	}
	txn := h.Call(from, row.sc, row.fn, in, value, f)
	e.note("semi/" + h.Label(row.sc) + "." + row.fn)
	e.Past = append(e.Past, txn)
	return txn
}

// FanOut draws a call that makes a contract look up several ids at once (chainstate.GetItemsByIDs reads them
// concurrently): an allocation request naming 2..6 blobber ids of which most do not exist, so that which of the failing
// lookups is reported is up to the contract, not to the scheduler.
func (e *Env) FanOut(t *rapid.T) *transaction.Transaction {
	h := e.H
	ws := e.Wallets()
	from := ws[rapid.IntRange(0, len(ws)-1).Draw(t, "from")]
	k := rapid.IntRange(2, 6).Draw(t, "ids")
	ids, tickets := make([]string, k), make([]string, k)
	for i := range ids {
		ids[i] = encryption.Hash(fmt.Sprintf("fan-%d", rapid.IntRange(0, 9).Draw(t, "id")))
	}
	data := rapid.IntRange(1, k-1).Draw(t, "data")
	in := map[string]interface{}{
		"data_shards": data, "parity_shards": k - data, "size": 1 << 30, "owner_id": from.ID, "owner_public_key": from.PublicKey,
		"blobbers": ids, "blobber_auth_tickets": tickets,
		"read_price_range":  map[string]uint64{"min": 0, "max": 7e10},
		"write_price_range": map[string]uint64{"min": 0, "max": 7e10},
	}
	txn := h.Call(from, sim.StorageSC, "new_allocation_request", in, currency.Coin(rapid.SampledFrom([]uint64{1e10, 1e11, 0}).Draw(t, "lock")), fee(t))
	e.note("fanout/new_allocation_request")
	e.Past = append(e.Past, txn)
	return txn
}


// otherCase returns id with its k-th hex letter (a-f) turned to upper case (id itself when it has fewer letters).
func otherCase(id string, k int) string {
	b := []byte(id)
	for i, c := range b {
		if c >= 'a' && c <= 'f' {
			if k == 0 {
				b[i] = c - 'a' + 'A'
				return string(b)
			}
			k--
		}
	}
	return id
}

// Puppet draws a call of the harness' puppet contract (sim/puppet.go): it takes the transaction's value, queues 0..4
// payouts from the contract's wallet with amounts at the boundaries of what that wallet will hold, writes or deletes a
// few state nodes and then succeeds or fails.
func (e *Env) Puppet(t *rapid.T) *transaction.Transaction {
	h := e.H
	ws := e.Wallets()
	from := ws[rapid.IntRange(0, len(ws)-1).Draw(t, "from")]
	v := sim.ViewOf(h.Cur.B)
	bal, pbal := v.Balance(from.ID), v.Balance(sim.PuppetSC)
	f := fee(t)
	var value currency.Coin
	switch rapid.IntRange(0, 3).Draw(t, "puppetValue") {
	case 0:
		value = 0
	case 1:
		value = currency.Coin(rapid.SampledFrom([]uint64{1e10, 1e9, 1, 5e10}).Draw(t, "deposit"))
	default:
		value = Amount(t, "value", bal, uint64(f))
	}
	a := sim.PuppetAction{TakeValue: rapid.IntRange(0, 4).Draw(t, "takeValue") != 3}
	have := pbal
	if a.TakeValue && uint64(value) <= bal {
		have += uint64(value)
	}
	n := rapid.IntRange(0, 4).Draw(t, "payouts")
	left := have
	for i := 0; i < n; i++ {
		var amt uint64
		switch rapid.IntRange(0, 8).Draw(t, "payoutKind") {
		case 0:
			amt = left // exactly what is left
		case 1:
			amt = left + 1 // one more than is left: this payout cannot be paid
		case 2:
			amt = left / 2
		case 3:
			amt = 0
		case 4:
			amt = 1
		case 5:
			amt = rapid.SampledFrom([]uint64{1 << 63, math.MaxUint64, uint64(config.MaxTokenSupply) + 1}).Draw(t, "huge")
		default:
			if left > 0 {
				amt = rapid.Uint64Range(1, left).Draw(t, "payout")
			}
		}
		a.Payouts = append(a.Payouts, sim.PuppetPayout{To: e.recipient(t, from), Amount: amt})
		if amt <= left {
			left -= amt
		}
	}
	for i, k := 0, rapid.IntRange(0, 2).Draw(t, "writes"); i < k; i++ {
		w := sim.PuppetWrite{Key: fmt.Sprintf("k%d", rapid.IntRange(0, 3).Draw(t, "key")), Val: rapid.SampledFrom([]string{"a", "b", "", "a"}).Draw(t, "val")}
		w.Delete = rapid.IntRange(0, 4).Draw(t, "delete") == 2
		a.Writes = append(a.Writes, w)
	}
	if rapid.IntRange(0, 3).Draw(t, "fail") == 2 {
		a.Fail = "puppet told to fail"
	}
	txn := h.PuppetCall(from, a, value, f)
	e.note(fmt.Sprintf("puppet/payouts=%d", n))
	if a.Fail != "" {
		e.note("puppet/told-to-fail")
	}
	e.Past = append(e.Past, txn)
	return txn
}
