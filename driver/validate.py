#!/usr/bin/env python3
import json, glob, sys
import jsonschema
ms = json.load(open('/root/.vp/MANIFEST.schema.json'))
es = json.load(open('/root/.vp/EVIDENCE.schema.json'))
jsonschema.validate(json.load(open('/verif/MANIFEST.json')), ms)
bad = 0
for f in sorted(glob.glob('/verif/evidence/*.json')):
    try:
        jsonschema.validate(json.load(open(f)), es)
    except Exception as e:
        bad += 1
        print("INVALID", f, str(e)[:300])
print("manifest ok; evidence files:", len(glob.glob('/verif/evidence/*.json')), "invalid:", bad)
sys.exit(1 if bad else 0)
