"""Registry of checks: one entry per property, each a list of parts.

part keys: pkg (import path), run (test regex), quick/thorough (rapid checks),
race, steps, shards_quick/shards_thorough, timeout_quick/timeout_thorough,
env, floor (minimum distinct non-trivial cases for the part).
"""

OB = "0chain.net/core/util/orderbuffer"

CHECKS = {
    "C46": dict(
        level="exploration", engine="E2",
        technique="stateful property-based testing (rapid state machine) against a reference sorted-list model; generated concurrent programs under -race",
        level_text="Generated operation histories (add/repeat/first/pop) over the real OrderBuffer are compared step by step with an independent stably-sorted reference list; concurrent programs of 2-4 goroutines run under the race detector with invariants on the quiescent state. Exploration: finds any deviation in the explored histories, proves nothing about unexplored ones.",
        level_note="Trusts the reference model in the test and that callers pass (b.Round,b); concurrency is sampled, not enumerated.",
        parts=[
            dict(pkg=OB, run="^TestC46_Model$", quick=20000, thorough=800000, steps=40, floor=50),
            dict(pkg=OB, run="^TestC46_Concurrent$", race=True, quick=300, thorough=16000),
        ],
        assumptions=["callers pass (b.Round, b): the data item determines its round (chain.blockBuffer usage)",
                     "concurrent part samples interleavings; absence of races is only shown for the executed ones"],
    ),
}

RND = "0chain.net/chaincore/round"
CHECKS["C37"] = dict(
    level="exploration", engine="E2",
    technique="stateful property-based testing (rapid state machine vs reference model, per-operation watchdog); generated concurrent programs under -race",
    level_text="Generated histories of round operations are executed on the real Round with every call under a watchdog and compared with a reference model of phase / finalizing state / timeout count / share set; concurrent programs run under the race detector. Exploration of sequences and sampled interleavings.",
    level_note="Trusts the reference model; deadlock detection is by a 20 s watchdog on operations that take microseconds; interleavings are sampled by the Go scheduler, not enumerated.",
    parts=[
        dict(pkg=RND, run="^TestC37_Sequential$", quick=3000, thorough=160000, steps=30, floor=50),
        dict(pkg=RND, run="^TestC37_Concurrent$", race=True, quick=300, thorough=16000),
    ],
)
CHECKS["C35"] = dict(
    level="exploration", engine="E2",
    technique="stateful property-based testing against a rank->block reference map; metamorphic test over insertion orders of the miner pool",
    level_text="Generated add/update histories over a real Round are checked against a reference map (one block per rank, heaviest first, update replaces the object); miner pools built in two generated insertion orders must give identical rank permutations.",
    level_note="Trusts the reference model; miner keys are derived BLS keys, seeds are drawn.",
    parts=[
        dict(pkg=RND, run="^TestC35_NotarizedBlocks$", quick=3000, thorough=160000, steps=30, floor=50),
        dict(pkg=RND, run="^TestC35_Ranking$", quick=1500, thorough=80000, floor=20),
    ],
)

# properties not claimed (reason shown in MANIFEST.not_applicable)
PENDING = {}
