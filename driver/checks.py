"""Registry of checks: one entry per property, each a list of parts.

part keys: pkg (import path), run (test regex), quick/thorough (rapid checks),
race, steps, shards_quick/shards_thorough, timeout_quick/timeout_thorough,
env, floor (minimum distinct non-trivial cases for the part).
"""

OB = "0chain.net/core/util/orderbuffer"

CHECKS = {
    "C46": dict(
        level="exploration", engine="E2",
        technique="stateful property-based testing (rapid state machine) against a reference sorted-list model; generated concurrent programs under -race",
        level_text="Generated operation histories (add/repeat/first/pop) over the real OrderBuffer are compared step by step with an independent stably-sorted reference list; concurrent programs of 2-4 goroutines run under the race detector with invariants on the quiescent state. Exploration: finds any deviation in the explored histories, proves nothing about unexplored ones.",
        level_note="Trusts the reference model in the test and that callers pass (b.Round,b); concurrency is sampled, not enumerated.",
        parts=[
            dict(pkg=OB, run="^TestC46_Model$", quick=20000, thorough=800000, steps=40, floor=50),
            dict(pkg=OB, run="^TestC46_Concurrent$", race=True, quick=300, thorough=16000),
        ],
        assumptions=["callers pass (b.Round, b): the data item determines its round (chain.blockBuffer usage)",
                     "concurrent part samples interleavings; absence of races is only shown for the executed ones"],
    ),
}

RND = "0chain.net/chaincore/round"
CHECKS["C37"] = dict(
    level="exploration", engine="E2",
    technique="stateful property-based testing (rapid state machine vs reference model, per-operation watchdog); generated concurrent programs under -race",
    level_text="Generated histories of round operations are executed on the real Round with every call under a watchdog and compared with a reference model of phase / finalizing state / timeout count / share set; concurrent programs run under the race detector. Exploration of sequences and sampled interleavings.",
    level_note="Trusts the reference model; deadlock detection is by a 20 s watchdog on operations that take microseconds; interleavings are sampled by the Go scheduler, not enumerated.",
    parts=[
        dict(pkg=RND, run="^TestC37_Sequential$", quick=3000, thorough=160000, steps=30, floor=50),
        dict(pkg=RND, run="^TestC37_Concurrent$", race=True, quick=300, thorough=16000),
    ],
)
CHECKS["C35"] = dict(
    level="exploration", engine="E2",
    technique="stateful property-based testing against a rank->block reference map; metamorphic test over insertion orders of the miner pool",
    level_text="Generated add/update histories over a real Round are checked against a reference map (one block per rank, heaviest first, update replaces the object); miner pools built in two generated insertion orders must give identical rank permutations.",
    level_note="Trusts the reference model; miner keys are derived BLS keys, seeds are drawn.",
    parts=[
        dict(pkg=RND, run="^TestC35_NotarizedBlocks$", quick=3000, thorough=160000, steps=30, floor=50),
        dict(pkg=RND, run="^TestC35_Ranking$", quick=1500, thorough=80000, floor=20),
    ],
)

# properties not claimed (reason shown in MANIFEST.not_applicable)
PENDING = {}

CHN = "0chain.net/chaincore/chain"
CHECKS["C40"] = dict(
    level="exploration", engine="E2",
    technique="stateful property-based testing against a floor-lookup reference model (round storage and Chain.GetMagicBlock), boundary-directed queries",
    level_text="Generated Put/Prune histories over the real round-starting storage and SetMagicBlock/PruneRoundStorage histories over a real Chain object are compared with an independent floor-lookup model at every boundary round (s-1, s, s+1, and the whole view-change offset window) plus drawn rounds.",
    level_note="'Rounds at or after the pruned point' is read as rounds at or after the first retained starting round (Prune removes the named entry itself, which is PruneRoundStorage's contract). Pruning is generated the way the chain prunes (keep newest k >= 1).",
    parts=[
        dict(pkg=RND, run="^TestC40_Storage$", quick=4000, thorough=200000, steps=25, floor=50),
        dict(pkg=CHN, run="^TestC40_ChainLookup$", quick=1500, thorough=80000, steps=15, floor=20),
    ],
)
CHECKS["C42"] = dict(
    level="exploration", engine="E2",
    technique="metamorphic property-based testing (two insertion orders must give the same replicator set) plus cardinality oracles",
    level_text="Two long-lived Chain objects with the same magic blocks but sharders inserted in different generated orders answer generated (round, hash) query sequences; each answer must equal the other chain's and the answer of a fresh chain that knows only the magic block in force (differential), and all three 'who stores this block' entry points must agree; cardinality and disabled-replication clauses are checked directly.",
    level_note="Sharder ids come from derived BLS keys; the XOR scorer and pool are the real ones; 'enough sharders' is read as n >= replicators.",
    parts=[dict(pkg=CHN, run="^TestC42_Replicators$", quick=500, thorough=40000, floor=50)],
)
CHECKS["C36"] = dict(
    level="exploration", engine="E2",
    technique="property-based testing over generated block trees against a reference common-ancestor computation (differential oracle)",
    level_text="Generated notarized-block trees (forks, missing round objects, empty tip rounds, four kinds of parent link) are given to the real Chain.ComputeFinalizedBlock and compared with an independent level-by-level common-ancestor reference; repeatability and non-interference with the round objects are checked too.",
    level_note="Parent links that would need the network (SyncPreviousBlocks) are not generated, except directly above the LFB where the code must answer 'none' locally. finalizeRound's channel hand-off is not driven here.",
    parts=[dict(pkg=CHN, run="^TestC36_ComputeFinalizedBlock$", quick=3000, thorough=200000, floor=50)],
)
MSC = "0chain.net/smartcontract/minersc"
CHECKS["C39"] = dict(
    level="exploration", engine="E2",
    technique="property-based testing with validity-predicate oracles (size, reserved seats, stake preference), metamorphic insertion-order test, statistical tie-fairness test over 256 seeds",
    level_text="Generated candidate sets with many stake ties are reduced by the real SimpleNodes.reduce and by MinerSmartContract.reduceShardersList; the result is checked against validity predicates derived from the statement rather than one expected answer, for determinism across map insertion orders, and for seed-only tie breaking (every tied candidate wins for some seed and loses for some seed).",
    level_note="The tie-fairness oracle covers the final cut-off among non-reserved candidates; the internal tie-break among previous members for reserved seats is not judged (the statement fixes them only 'by highest stake'). False-alarm probability of the fairness test < 1e-14 per case.",
    parts=[
        dict(pkg=MSC, run="^TestC39_Reduce$", quick=4000, thorough=300000, floor=50),
        dict(pkg=MSC, run="^TestC39_TieFairness$", quick=150, thorough=8000),
    ],
)
SPL = "0chain.net/smartcontract/stakepool"
CHECKS["C10"] = dict(
    level="exploration", engine="E2",
    technique="property-based testing with an exact big-integer oracle over generated stake pools and amounts (boundary-biased generators: 0, 2^53, supply, 2^64)",
    level_text="The real DistributeRewards / DistributeRewardsRandN run on generated pools over a real state context; the sum of all reward increments is compared with the paid amount in exact arithmetic, each delegate's share with the exact proportional share within a stated float tolerance, and the kill / min-stake / N clauses directly.",
    level_note="The oracle sums the pools' own Reward fields, not the emitted event. Calls that return an error are not judged (an error aborts the transaction; rollback is C02's subject).",
    parts=[dict(pkg=SPL, run="^TestC10_DistributeRewards$", quick=20000, thorough=1600000, floor=200)],
)
PRT = "0chain.net/smartcontract/partitions"
CHECKS["C25"] = dict(
    level="exploration", engine="E2",
    technique="stateful (model-based) property-based testing: rapid state machine over real Partitions on a real MPT vs a reference map, full observation after every step",
    level_text="Generated histories of every exported partition operation, with saves, reloads in the same transaction, commits to a new transaction and discarded transactions, run against the real Partitions code over a real Merkle Patricia trie and state context; after every step membership, lookup, full iteration, per-partition fill and size are compared with a reference map.",
    level_note="Trusts the reference map; items are a small msgp-encoded struct; ids drawn from 12 ids so reuse is frequent.",
    parts=[dict(pkg=PRT, run="^TestC25_PartitionsAsSet$", quick=2500, thorough=200000, steps=60, floor=30)],
)
CST = "0chain.net/chaincore/chain/state"
CHECKS["C43"] = dict(
    level="exploration", engine="E2",
    technique="property-based testing of evaluation sequences against the reference predicate (recorded && block round >= fork round), with generated missing-node faults",
    level_text="Sequences of WithActivation evaluations over real state contexts / real tries (several states, several fork names, block rounds at r-1, r, r+1 in any order inside one process) are compared with the reference predicate; a fifth of the evaluations run on a state copy with one trie node removed, where refusing is allowed but running the wrong rule set is not.",
    level_note="Fork rounds and block rounds are drawn from boundary-biased sets; the fault model is a single missing trie node.",
    parts=[dict(pkg=CST, run="^TestC43_Activation$", quick=1500, thorough=120000, floor=30)],
)
ENC = "0chain.net/core/encryption"
CLI = "0chain.net/chaincore/client"
CHECKS["C47"] = dict(
    level="exploration", engine="E2",
    technique="property-based round-trip (sign then verify) with generated single tamperings; stateful test of the client-id invariant",
    level_text="For both schemes derived key pairs sign drawn hashes; the genuine signature must verify on a verifier built from the public key string, and one generated tampering of signature, key or hash (bit flips, truncation, extension by extra bytes, foreign key/hash) must not. A rapid state machine re-keys client objects through every key-setting path (incl. preset foreign id, JSON decode) and checks id == hash(public key) after each step.",
    level_note="Keys are derived from VERIF_SEED; an error or a panic on malformed input counts as failure to verify (reported as a class, not a violation).",
    parts=[
        dict(pkg=ENC, run="^TestC47_SignVerify$", quick=3000, thorough=300000, floor=100),
        dict(pkg=CLI, run="^TestC47_ClientID$", quick=400, thorough=40000, steps=12),
    ],
)
CHECKS["C32"] = dict(
    level="exploration", engine="E2",
    technique="differential property-based testing: batched aggregate verification vs individual verification over generated corruption patterns",
    level_text="Generated sets of (key, message, signature) triples, batch sizes (including non-divisible totals) and corruption patterns (incl. the coordinated cancelling pair and a bad signature in the tail batch), with long-lived verifier key objects reused across several aggregate runs, are checked for agreement between Aggregate+Verify and the conjunction of individual Verify calls.",
    level_note="Encryption-level only in this part; the oracle is the scheme's own individual Verify. The cancelling-pair class is a known finding (see known_findings.json).",
    parts=[dict(pkg=ENC, run="^TestC32_AggregateAgreesWithIndividual$", quick=250, thorough=24000, floor=20)],
)
TBLS = "0chain.net/chaincore/threshold/bls"
BLK = "0chain.net/chaincore/block"
CHECKS["C34"] = dict(
    level="exploration", engine="E2",
    technique="property-based testing of complete DKG / threshold-signing runs with cryptographic round-trip oracles (validate, verify, recover agree across subsets)",
    level_text="Complete DKG runs with generated (t, n, party ids, message, subsets, orders) use the real bls package end to end and check every statement clause as a round-trip; client threshold keys are exercised with ids and keys transported as strings, split keys with 1..7 parts; ShareOrSigns.Validate is compared with per-entry validity.",
    level_note="Polynomial coefficients come from the library's CSPRNG (MakeDKG / GetMasterSecretKey offer no injection point); no oracle depends on their bytes. n <= 9 for DKG, n <= 14 for client threshold keys.",
    parts=[
        dict(pkg=TBLS, run="^TestC34_DKG$", quick=120, thorough=12000, floor=10),
        dict(pkg=ENC, run="^TestC34_ThresholdAndSplitKeys$", quick=300, thorough=30000),
    ],
)
TXN = "0chain.net/chaincore/transaction"
CHECKS["C30"] = dict(
    level="exploration", engine="E2",
    technique="property-based testing of the acceptance pipeline with generated single-field tamperings (hash kept or recomputed) and generated client-cache states",
    level_text="Signed transactions of every type with boundary values go through the real receive pipeline (wire decode, ComputeProperties, Validate); each case then applies one generated tampering, with the hash either left as signed or recomputed by the attacker, under a generated state of the client cache; acceptance of a tampered transaction is a violation unless it is the listed known finding for that field.",
    level_note="The pipeline is decode + ComputeProperties + Validate as the put-transaction handler runs it; time tolerance uses the real clock (creation date = now - 0..3 s).",
    parts=[dict(pkg=TXN, run="^TestC30_SignatureBindsFields$", quick=3000, thorough=300000, floor=100)],
)
CHECKS["C29"] = dict(
    level="exploration", engine="E2",
    technique="property-based testing: generated blocks through the receive pipeline, generated single-field tamperings with and without attacker-side hash recomputation",
    level_text="Signed blocks with signed transactions go through wire encode/decode, ComputeProperties and Validate; each case applies one tampering from a table covering every effect-relevant field of the statement; the oracle requires the recomputed hash to move and the receive pipeline to reject. Fields the hash does not cover are reported per field.",
    level_note="Generator keys are derived; the registry of known miners is the real node registry. Tampering of a transaction's own content is C30's subject; here transactions are replaced, dropped, duplicated, reordered or given another output hash.",
    parts=[dict(pkg=BLK, run="^TestC29_HashCommitsToContents$", quick=1500, thorough=150000, floor=100)],
)
BDB = "0chain.net/sharder/blockdb"
BST = "0chain.net/sharder/blockstore"
CHECKS["C26"] = dict(
    level="fault_enumeration", engine="E4",
    technique="property-based round-trip testing on real files with generated crash faults (file prefix truncation, stale files from a crashed attempt) and a per-lookup watchdog",
    level_text="Generated record sets are written through the real BlockDB, saved, reopened and read back (every key, absent keys below/between/above under a watchdog, full scan); generated blocks go through the real file-system block store; the crash model truncates the data, index or block file at generated offsets and re-creates databases over stale files; a read must return an error or exactly what was written.",
    level_note="Crash faults are modelled as a prefix of the bytes written (plus leftovers of an earlier attempt); bit rot is out of the statement's scope. A lookup that does not return within 10 s (a loop over <= 64 keys) counts as a hang.",
    parts=[
        dict(pkg=BDB, run="^TestC26_BlockDB$", quick=600, thorough=60000, floor=50),
        dict(pkg=BST, run="^TestC26_BlockStore$", quick=300, thorough=30000, floor=30),
    ],
)
