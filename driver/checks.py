"""Registry of checks: one entry per property, each a list of parts.

part keys: pkg (import path), run (test regex), quick/thorough (rapid checks),
race, steps, shards_quick/shards_thorough, timeout_quick/timeout_thorough,
env, floor (minimum distinct non-trivial cases for the part).
"""

OB = "0chain.net/core/util/orderbuffer"

CHECKS = {
    "C46": dict(
        level="exploration", engine="E2",
        technique="stateful property-based testing (rapid state machine) against a reference sorted-list model; generated concurrent programs under -race",
        level_text="Generated operation histories (add/repeat/first/pop) over the real OrderBuffer are compared step by step with an independent stably-sorted reference list; concurrent programs of 2-4 goroutines run under the race detector with invariants on the quiescent state. Exploration: finds any deviation in the explored histories, proves nothing about unexplored ones.",
        level_note="Trusts the reference model in the test and that callers pass (b.Round,b); concurrency is sampled, not enumerated.",
        parts=[
            dict(pkg=OB, run="^TestC46_Model$", quick=20000, thorough=800000, steps=40, floor=50),
            dict(pkg=OB, run="^TestC46_Concurrent$", race=True, quick=300, thorough=16000),
        ],
        assumptions=["callers pass (b.Round, b): the data item determines its round (chain.blockBuffer usage)",
                     "concurrent part samples interleavings; absence of races is only shown for the executed ones"],
    ),
}

# properties not claimed (reason shown in MANIFEST.not_applicable)
PENDING = {}
