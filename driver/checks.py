"""Registry of checks: one entry per property, each a list of parts.

part keys: pkg (import path), run (test regex), quick/thorough (rapid checks),
race, steps, shards_quick/shards_thorough, timeout_quick/timeout_thorough,
env, floor (minimum distinct non-trivial cases for the part).
"""

OB = "0chain.net/core/util/orderbuffer"

CHECKS = {
    "C46": dict(
        level="exploration", engine="E2",
        technique="stateful property-based testing (rapid state machine) against a reference sorted-list model; generated concurrent programs under -race",
        level_text="Generated operation histories (add/repeat/first/pop) over the real OrderBuffer are compared step by step with an independent stably-sorted reference list; concurrent programs of 2-4 goroutines run under the race detector with invariants on the quiescent state. Exploration: finds any deviation in the explored histories, proves nothing about unexplored ones.",
        level_note="Trusts the reference model in the test and that callers pass (b.Round,b); concurrency is sampled, not enumerated.",
        parts=[
            dict(pkg=OB, run="^TestC46_Model$", quick=20000, thorough=800000, steps=40, floor=50),
            dict(pkg=OB, run="^TestC46_Concurrent$", race=True, quick=300, thorough=16000),
        ],
        assumptions=["callers pass (b.Round, b): the data item determines its round (chain.blockBuffer usage)",
                     "concurrent part samples interleavings; absence of races is only shown for the executed ones"],
    ),
}

RND = "0chain.net/chaincore/round"
CHECKS["C37"] = dict(
    level="exploration", engine="E2",
    technique="stateful property-based testing (rapid state machine vs reference model, per-operation watchdog); generated concurrent programs under -race",
    level_text="Generated histories of round operations are executed on the real Round with every call under a watchdog and compared with a reference model of phase / finalizing state / timeout count / share set; concurrent programs run under the race detector. Exploration of sequences and sampled interleavings.",
    level_note="Trusts the reference model; deadlock detection is by a 20 s watchdog on operations that take microseconds; interleavings are sampled by the Go scheduler, not enumerated.",
    parts=[
        dict(pkg=RND, run="^TestC37_Sequential$", quick=3000, thorough=160000, steps=30, floor=50),
        dict(pkg=RND, run="^TestC37_Concurrent$", race=True, quick=300, thorough=16000),
    ],
)
CHECKS["C35"] = dict(
    level="exploration", engine="E2",
    technique="stateful property-based testing against a rank->block reference map; metamorphic test over insertion orders of the miner pool",
    level_text="Generated add/update histories over a real Round are checked against a reference map (one block per rank, heaviest first, update replaces the object); miner pools built in two generated insertion orders must give identical rank permutations.",
    level_note="Trusts the reference model; miner keys are derived BLS keys, seeds are drawn.",
    parts=[
        dict(pkg=RND, run="^TestC35_NotarizedBlocks$", quick=3000, thorough=160000, steps=30, floor=50),
        dict(pkg=RND, run="^TestC35_Ranking$", quick=1500, thorough=80000, floor=20),
    ],
)

# properties not claimed (reason shown in MANIFEST.not_applicable)
PENDING = {}

CHN = "0chain.net/chaincore/chain"
CHECKS["C40"] = dict(
    level="exploration", engine="E2",
    technique="stateful property-based testing against a floor-lookup reference model (round storage and Chain.GetMagicBlock), boundary-directed queries",
    level_text="Generated Put/Prune histories over the real round-starting storage and SetMagicBlock/PruneRoundStorage histories over a real Chain object are compared with an independent floor-lookup model at every boundary round (s-1, s, s+1, and the whole view-change offset window) plus drawn rounds.",
    level_note="'Rounds at or after the pruned point' is read as rounds at or after the first retained starting round (Prune removes the named entry itself, which is PruneRoundStorage's contract). Pruning is generated the way the chain prunes (keep newest k >= 1).",
    parts=[
        dict(pkg=RND, run="^TestC40_Storage$", quick=4000, thorough=200000, steps=25, floor=50),
        dict(pkg=CHN, run="^TestC40_ChainLookup$", quick=1500, thorough=80000, steps=15, floor=20),
    ],
)
CHECKS["C42"] = dict(
    level="exploration", engine="E2",
    technique="metamorphic property-based testing (two insertion orders must give the same replicator set) plus cardinality oracles",
    level_text="Two long-lived Chain objects with the same magic blocks but sharders inserted in different generated orders answer generated (round, hash) query sequences; each answer must equal the other chain's and the answer of a fresh chain that knows only the magic block in force (differential), and all three 'who stores this block' entry points must agree; cardinality and disabled-replication clauses are checked directly.",
    level_note="Sharder ids come from derived BLS keys; the XOR scorer and pool are the real ones; 'enough sharders' is read as n >= replicators.",
    parts=[dict(pkg=CHN, run="^TestC42_Replicators$", quick=500, thorough=40000, floor=50)],
)
CHECKS["C36"] = dict(
    level="exploration", engine="E2",
    technique="property-based testing over generated block trees against a reference common-ancestor computation (differential oracle)",
    level_text="Generated notarized-block trees (forks, missing round objects, empty tip rounds, four kinds of parent link) are given to the real Chain.ComputeFinalizedBlock and compared with an independent level-by-level common-ancestor reference; repeatability and non-interference with the round objects are checked too.",
    level_note="Parent links that would need the network (SyncPreviousBlocks) are not generated, except directly above the LFB where the code must answer 'none' locally. finalizeRound's channel hand-off is not driven here.",
    parts=[dict(pkg=CHN, run="^TestC36_ComputeFinalizedBlock$", quick=3000, thorough=200000, floor=50)],
)
MSC = "0chain.net/smartcontract/minersc"
CHECKS["C39"] = dict(
    level="exploration", engine="E2",
    technique="property-based testing with validity-predicate oracles (size, reserved seats, stake preference), metamorphic insertion-order test, statistical tie-fairness test over 256 seeds",
    level_text="Generated candidate sets with many stake ties are reduced by the real SimpleNodes.reduce and by MinerSmartContract.reduceShardersList; the result is checked against validity predicates derived from the statement rather than one expected answer, for determinism across map insertion orders, and for seed-only tie breaking (every tied candidate wins for some seed and loses for some seed).",
    level_note="The tie-fairness oracle covers the final cut-off among non-reserved candidates; the internal tie-break among previous members for reserved seats is not judged (the statement fixes them only 'by highest stake'). False-alarm probability of the fairness test < 1e-14 per case.",
    parts=[
        dict(pkg=MSC, run="^TestC39_Reduce$", quick=4000, thorough=300000, floor=50),
        dict(pkg=MSC, run="^TestC39_TieFairness$", quick=150, thorough=8000),
    ],
)
SPL = "0chain.net/smartcontract/stakepool"
CHECKS["C10"] = dict(
    level="exploration", engine="E2",
    technique="property-based testing with an exact big-integer oracle over generated stake pools and amounts (boundary-biased generators: 0, 2^53, supply, 2^64)",
    level_text="The real DistributeRewards / DistributeRewardsRandN run on generated pools over a real state context; the sum of all reward increments is compared with the paid amount in exact arithmetic, each delegate's share with the exact proportional share within a stated float tolerance, and the kill / min-stake / N clauses directly.",
    level_note="The oracle sums the pools' own Reward fields, not the emitted event. Calls that return an error are not judged (an error aborts the transaction; rollback is C02's subject).",
    parts=[dict(pkg=SPL, run="^TestC10_DistributeRewards$", quick=20000, thorough=1600000, floor=200)],
)
PRT = "0chain.net/smartcontract/partitions"
CHECKS["C25"] = dict(
    level="exploration", engine="E2",
    technique="stateful (model-based) property-based testing: rapid state machine over real Partitions on a real MPT vs a reference map, full observation after every step",
    level_text="Generated histories of every exported partition operation, with saves, reloads in the same transaction, commits to a new transaction and discarded transactions, run against the real Partitions code over a real Merkle Patricia trie and state context; after every step membership, lookup, full iteration, per-partition fill and size are compared with a reference map.",
    level_note="Trusts the reference map; items are a small msgp-encoded struct; ids drawn from 12 ids so reuse is frequent.",
    parts=[dict(pkg=PRT, run="^TestC25_PartitionsAsSet$", quick=2500, thorough=200000, steps=60, floor=30)],
)
CST = "0chain.net/chaincore/chain/state"
CHECKS["C43"] = dict(
    level="exploration", engine="E2",
    technique="property-based testing of evaluation sequences against the reference predicate (recorded && block round >= fork round), with generated missing-node faults",
    level_text="Sequences of WithActivation evaluations over real state contexts / real tries (several states, several fork names, block rounds at r-1, r, r+1 in any order inside one process) are compared with the reference predicate; a fifth of the evaluations run on a state copy with one trie node removed, where refusing is allowed but running the wrong rule set is not.",
    level_note="Fork rounds and block rounds are drawn from boundary-biased sets; the fault model is a single missing trie node.",
    parts=[dict(pkg=CST, run="^TestC43_Activation$", quick=1500, thorough=120000, floor=30)],
)
ENC = "0chain.net/core/encryption"
CLI = "0chain.net/chaincore/client"
CHECKS["C47"] = dict(
    level="exploration", engine="E2",
    technique="property-based round-trip (sign then verify) with generated single tamperings; stateful test of the client-id invariant",
    level_text="For both schemes derived key pairs sign drawn hashes; the genuine signature must verify on a verifier built from the public key string, and one generated tampering of signature, key or hash (bit flips, truncation, extension by extra bytes, foreign key/hash) must not. A rapid state machine re-keys client objects through every key-setting path (incl. preset foreign id, JSON decode) and checks id == hash(public key) after each step.",
    level_note="Keys are derived from VERIF_SEED; an error or a panic on malformed input counts as failure to verify (reported as a class, not a violation).",
    parts=[
        dict(pkg=ENC, run="^TestC47_SignVerify$", quick=3000, thorough=300000, floor=100),
        dict(pkg=CLI, run="^TestC47_ClientID$", quick=400, thorough=40000, steps=12),
    ],
)
CHECKS["C32"] = dict(
    level="exploration", engine="E2",
    technique="differential property-based testing: batched aggregate verification vs individual verification over generated corruption patterns",
    level_text="Generated sets of (key, message, signature) triples, batch sizes (including non-divisible totals) and corruption patterns (incl. the coordinated cancelling pair and a bad signature in the tail batch), with long-lived verifier key objects reused across several aggregate runs, are checked for agreement between Aggregate+Verify and the conjunction of individual Verify calls.",
    level_note="Encryption-level only in this part; the oracle is the scheme's own individual Verify. The cancelling-pair class is a known finding (see known_findings.json).",
    parts=[dict(pkg=ENC, run="^TestC32_AggregateAgreesWithIndividual$", quick=250, thorough=24000, floor=20)],
)
TBLS = "0chain.net/chaincore/threshold/bls"
BLK = "0chain.net/chaincore/block"
CHECKS["C34"] = dict(
    level="exploration", engine="E2",
    technique="property-based testing of complete DKG / threshold-signing runs with cryptographic round-trip oracles (validate, verify, recover agree across subsets)",
    level_text="Complete DKG runs with generated (t, n, party ids, message, subsets, orders) use the real bls package end to end and check every statement clause as a round-trip; client threshold keys are exercised with ids and keys transported as strings, split keys with 1..7 parts; ShareOrSigns.Validate is compared with per-entry validity.",
    level_note="Polynomial coefficients come from the library's CSPRNG (MakeDKG / GetMasterSecretKey offer no injection point); no oracle depends on their bytes. n <= 9 for DKG, n <= 14 for client threshold keys.",
    parts=[
        dict(pkg=TBLS, run="^TestC34_DKG$", quick=120, thorough=12000, floor=10),
        dict(pkg=ENC, run="^TestC34_ThresholdAndSplitKeys$", quick=300, thorough=30000),
    ],
)
TXN = "0chain.net/chaincore/transaction"
CHECKS["C30"] = dict(
    level="exploration", engine="E2",
    technique="property-based testing of the acceptance pipeline with generated single-field tamperings (hash kept or recomputed) and generated client-cache states",
    level_text="Signed transactions of every type with boundary values go through the real receive pipeline (wire decode, ComputeProperties, Validate); each case then applies one generated tampering, with the hash either left as signed or recomputed by the attacker, under a generated state of the client cache; acceptance of a tampered transaction is a violation unless it is the listed known finding for that field.",
    level_note="The pipeline is decode + ComputeProperties + Validate as the put-transaction handler runs it; time tolerance uses the real clock (creation date = now - 0..3 s).",
    parts=[dict(pkg=TXN, run="^TestC30_SignatureBindsFields$", quick=3000, thorough=300000, floor=100)],
)
CHECKS["C29"] = dict(
    level="exploration", engine="E2",
    technique="property-based testing: generated blocks through the receive pipeline, generated single-field tamperings with and without attacker-side hash recomputation",
    level_text="Signed blocks with signed transactions go through wire encode/decode, ComputeProperties and Validate; each case applies one tampering from a table covering every effect-relevant field of the statement; the oracle requires the recomputed hash to move and the receive pipeline to reject. Fields the hash does not cover are reported per field.",
    level_note="Generator keys are derived; the registry of known miners is the real node registry. Tampering of a transaction's own content is C30's subject; here transactions are replaced, dropped, duplicated, reordered or given another output hash.",
    parts=[dict(pkg=BLK, run="^TestC29_HashCommitsToContents$", quick=1500, thorough=150000, floor=100)],
)
BDB = "0chain.net/sharder/blockdb"
BST = "0chain.net/sharder/blockstore"
CHECKS["C26"] = dict(
    level="fault_enumeration", engine="E4",
    technique="property-based round-trip testing on real files with generated crash faults (file prefix truncation, stale files from a crashed attempt) and a per-lookup watchdog",
    level_text="Generated record sets are written through the real BlockDB, saved, reopened and read back (every key, absent keys below/between/above under a watchdog, full scan); generated blocks go through the real file-system block store; the crash model truncates the data, index or block file at generated offsets and re-creates databases over stale files; a read must return an error or exactly what was written.",
    level_note="Crash faults are modelled as a prefix of the bytes written (plus leftovers of an earlier attempt); bit rot is out of the statement's scope. A lookup that does not return within 10 s (a loop over <= 64 keys) counts as a hang.",
    parts=[
        dict(pkg=BDB, run="^TestC26_BlockDB$", quick=600, thorough=60000, floor=50),
        dict(pkg=BST, run="^TestC26_BlockStore$", quick=300, thorough=30000, floor=30),
    ],
)

CORE = "verifharness/checks/core"
E1_NOTE = "Executes through the real Chain.UpdateState over the real MPT, state cache and contracts, booted from the shipped configuration (owner ids replaced by harness keys, multisig/vesting enabled, contract timeout raised to 10 min so load cannot turn a slow call into a rejected transaction). Transaction signatures are not part of this path; timestamps are synthetic."
CHECKS["C01"] = dict(
    level="exploration", engine="E1",
    technique="stateful property-based testing on the full-chain simulator: invariant (ledger sum == supply) checked after every generated transaction, full trie scan at the end",
    level_text="Generated transaction histories (all outcome classes: applied, chargeable failure, rejected) run on a real in-process chain; after every transaction the balances of all known accounts are read through an uncached trie and must sum to MaxTokenSupply; a full scan of the state trie confirms it at the end of each history and whenever the known sum deviates.",
    level_note=E1_NOTE,
    parts=[dict(pkg=CORE, run="^TestC01_SupplyConserved$", quick=400, thorough=40000, floor=20)],
)
CHECKS["C03"] = dict(
    level="exploration", engine="E1",
    technique="model-based property-based testing (nonce model from observed outcomes) on the full-chain simulator with generated replays and out-of-order nonces",
    level_text="Histories with replayed, skipped and past nonces from interleaved senders across blocks; applied implies nonce == state+1 and +1 afterwards, rejected implies nothing changed, no (sender, nonce) twice, an in-order funded send is always applied.",
    level_note=E1_NOTE,
    parts=[dict(pkg=CORE, run="^TestC03_NonceOrder$", quick=400, thorough=40000, floor=20)],
)
CHECKS["C04"] = dict(
    level="exploration", engine="E1",
    technique="stateful property-based testing on the full-chain simulator: per-transaction balance-delta oracle over all known accounts",
    level_text="For every applied generated transaction every account whose balance decreased must be the sender (by at most value + fee) or the called contract's wallet (or carry a valid signed transfer / assigner marker in the contract-specific parts).",
    level_note=E1_NOTE,
    parts=[dict(pkg=CORE, run="^TestC04_DebitsOnlyAuthorised$", quick=400, thorough=40000, floor=20)],
)
CHECKS["C05"] = dict(
    level="exploration", engine="E1",
    technique="stateful property-based testing on the full-chain simulator with boundary-biased amounts; exact debit/credit oracle",
    level_text="Amounts at 0, 1, balance-fee, balance-fee+1, balance, supply, supply+1, 2^63 and 2^64-1; every balance stays <= supply, the sum never moves, over-spending sends are rejected as a whole, applied sends move exactly value and value+fee.",
    level_note=E1_NOTE + " The destination-overflow clause is unreachable through transactions (supply 4e18 < 2^64).",
    parts=[dict(pkg=CORE, run="^TestC05_NoOverdrawNoWrap$", quick=400, thorough=40000, floor=20)],
)
CHECKS["C02"] = dict(
    level="exploration", engine="E1",
    technique="differential property-based testing on the full-chain simulator: a failed call vs a fee-only twin transaction on a fork of the pre-state (state roots must be equal), plus event-list oracle",
    level_text="Every generated contract call that ends as a chargeable failure is compared with a plain data transaction carrying the same sender, fee, nonce, hash and time applied to a fork of the same pre-state: equal state roots prove that nothing but the fee payment and the nonce increment survived; the returned events must be exactly one error event plus the balance events of sender and miner contract.",
    level_note=E1_NOTE + " Non-trivial cases are failing calls for which an instrumented dry run shows state writes or queued transfers before the error.",
    parts=[dict(pkg=CORE, run="^TestC02_FailedCallOnlyPaysFee$", quick=300, thorough=30000, floor=4)],
)
CHECKS["C06"] = dict(
    level="exploration", engine="E1",
    technique="metamorphic property-based testing on the full-chain simulator: the same generated block executed repeatedly from the same state under cold/warm caches and GOMAXPROCS 1/all must give identical results",
    level_text="Generated blocks (incl. failing calls and governance calls with several invalid fields) are built once and re-executed 6 (quick) / 16 (thorough) times through Chain.UpdateState with fresh objects, alternating an isolated cold cache with the chain's shared warm cache and GOMAXPROCS settings; root, change count, statuses, outputs and the ordered event list must be identical every time.",
    level_note=E1_NOTE + " Map-iteration and scheduling nondeterminism is sampled by repetition, not enumerated.",
    parts=[dict(pkg=CORE, run="^TestC06_DeterministicExecution$", quick=150, thorough=15000, floor=10)],
)
MCHK = "verifharness/checks/minerchk"
CHECKS["C22"] = dict(
    level="exploration", engine="E1",
    technique="stateful property-based testing on the full-chain simulator with generated reward settings, stakes and fee totals; exact accounting oracle over all node stake pools",
    level_text="On a chain with all magic-block miners and sharders registered, generated settings / stakes / kills / fee totals are followed by payFees attempts from the generator, another miner, a stranger and with a wrong round; acceptance must be exactly generator+round, an accepted payment moves no account balance, and the reward increments over all miner and sharder stake pools add up to fees + block reward exactly when every choosable node is eligible (never more otherwise).",
    level_note=E1_NOTE + " The 'once per round' clause is enforced by block validation (one built-in transaction of each kind per block), which is exercised by the block-generation checks, not by the contract; here a second payment in one block is not generated.",
    parts=[dict(pkg=MCHK, run="^TestC22_FeesAndRewardsSplit$", quick=120, thorough=12000, floor=5)],
)
MISC = "verifharness/checks/miscchk"
CHECKS["C17"] = dict(
    level="exploration", engine="E1",
    technique="model-based property-based testing on the full-chain simulator: window sums fed with observed payouts under generated faucet configurations and clocks",
    level_text="Generated valid faucet configurations are installed through the owner's update-settings; generated pours by several clients with values in every class and timestamps crossing the individual and global reset windows run on the real chain; a window model (restart when now - start >= reset) fed with the observed balance deltas must never exceed the periodic or the global limit, and no pour may exceed the faucet balance.",
    level_note=E1_NOTE,
    parts=[dict(pkg=MISC, run="^TestC17_FaucetLimits$", quick=200, thorough=20000, floor=5)],
)
ZCHK = "verifharness/checks/zcnchk"
CHECKS["C18"] = dict(
    level="exploration", engine="E1",
    technique="model-based property-based testing on the full-chain simulator with a signature-list grammar (valid, well-formed forgeries, foreign keys, garbage, duplicates) and an independent quorum oracle",
    level_text="Bridge worlds with generated authorizer sets and quorum fractions receive generated mint requests whose signature lists mix valid signatures, well-formed signatures over other payloads or by unregistered keys, garbage and duplicates; the harness, which owns all keys, recomputes how many distinct registered authorizers really signed the exact message and requires that for every accepted mint, together with submitter == receiver, nonce freshness, exact amounts and nonce recording; a clean quorum must be accepted.",
    level_note=E1_NOTE + " 'Configured fraction' = round-half-even(percent_authorizers * registered), the contract's own rounding.",
    parts=[dict(pkg=ZCHK, run="^TestC18_MintNeedsQuorumOnce$", quick=200, thorough=20000, floor=10)],
)
CHECKS["C19"] = dict(
    level="exploration", engine="E1",
    technique="model-based property-based testing on the full-chain simulator (burn nonce per address counted from observed successes, exact balance deltas)",
    level_text="Generated burns (values around the minimum, repeated / new / empty Ethereum addresses, interleaved senders, fees) on the real chain; success must move exactly the value to the bridge wallet and advance exactly that address' burn nonce by one; refused burns move only the fee.",
    level_note=E1_NOTE,
    parts=[dict(pkg=ZCHK, run="^TestC19_BurnLocksAndAdvancesNonce$", quick=200, thorough=20000, floor=10)],
)
CHECKS["C21"] = dict(
    level="exploration", engine="E1",
    technique="model-based property-based testing on the full-chain simulator: generated wallets (t-of-n BLS threshold shares) and vote sequences vs a model of distinct valid voters per lifetime window",
    level_text="Generated multisig wallets are registered and funded through real transactions; generated vote sequences (duplicates, bad share signatures, incompatible transfers, non-signers, votes after expiry and after execution) run on the real chain; the wallet may pay only in the vote that brings the distinct valid voter set to the threshold, exactly once, exactly the proposal's transfer, and the stored wallet signature must verify.",
    level_note=E1_NOTE + " Threshold shares are built with the same construction as BLS0GenerateThresholdKeyShares but derived coefficients (the library's CSPRNG would make ids irreproducible).",
    parts=[dict(pkg=ZCHK, run="^TestC21_MultisigExecutesOnce$", quick=200, thorough=20000, floor=5)],
)
CHECKS["C16"] = dict(
    level="exploration", engine="E1",
    technique="stateful property-based testing on the full-chain simulator with an exact rational schedule oracle and amounts beyond 2^53",
    level_text="Vesting pools created through real transactions (amounts incl. values where float64 is inexact, future starts, min/max durations) are driven by generated trigger / unlock / stop / delete operations at generated times (exactly start, exactly expiry, after); after every operation each destination's vested amount must be monotone, <= its amount and <= the exact linear schedule plus a stated float tolerance, the pool must cover the unvested remainder, and at expiry the destination must be able to collect exactly its amount.",
    level_note=E1_NOTE,
    parts=[dict(pkg=MISC, run="^TestC16_VestingSchedule$", quick=200, thorough=20000, floor=10)],
)
CHECKS["C48"] = dict(
    level="exploration", engine="E1",
    technique="stateful property-based testing on the full-chain simulator over all six settings functions with generated update maps (valid / unknown / immutable / unparsable / extreme) and the contracts' own validate() as part of the oracle",
    level_text="For every settings function, generated sequences of update maps sent by the owner or a stranger (optionally after the demeter fork) are executed; the oracle works on the contract's own rendering of its active settings: identical after a refused or foreign update, only named keys differ after an accepted one, no invalid entry may be part of an accepted map, and the contract's own validate() must still accept the configuration in force.",
    level_note=E1_NOTE + " Names, types and valid examples come from the contracts' own settings tables (simmisc.Specs).",
    parts=[dict(pkg=MISC, run="^TestC48_GovernanceSettings$", quick=300, thorough=30000, floor=10)],
)
SCHK = "verifharness/checks/storagechk"
STORAGE_TECH = "stateful (model-based) property-based testing on the full-chain simulator: generated storage contract histories with an invariant oracle over the contract state after every transaction"
CHECKS["C12"] = dict(
    level="exploration", engine="E1", technique=STORAGE_TECH,
    level_text="Generated storage histories (allocations, write markers of both signs, challenges with pass/fail/mixed responses, updates, blobber replacement, kills, cancel/finalize) run on the real chain with real providers; after every applied transaction the challenge pool of every open allocation must equal the sum of its per-blobber outstanding challenge values exactly, and closed allocations must leave neither node behind.",
    level_note=E1_NOTE + " Contract state is read through read-only shims that call the contract's own getters on an uncached trie.",
    parts=[dict(pkg=SCHK, run="^TestC12_ChallengePoolEqualsBlobberValues$", quick=150, thorough=15000, floor=5, timeout_quick=1500)],
)
CHECKS["C13"] = dict(
    level="exploration", engine="E1", technique=STORAGE_TECH,
    level_text="Same generated storage histories; after every applied transaction each blobber's Allocated must equal the sum of its sizes over the open allocations, its stake pool's TotalOffers the sum of their offers, Allocated <= Capacity right after an assignment, and at the end every open allocation must still be cancellable by its owner on a scratch fork (no offer underflow).",
    level_note=E1_NOTE,
    parts=[dict(pkg=SCHK, run="^TestC13_CapacityAndOffers$", quick=150, thorough=15000, floor=5, timeout_quick=1500)],
)

# ---------------------------------------------------------------------------
# Work in progress: registered so that `VERIF_WIP=1 ./check <ID> <tier>` can run them, but NOT claimed
# (gen_manifest.py lists them under not_applicable with the reason below and writes no check entry).
WIP = {}

# ---------------------------------------------------------------------------
# Per-property registry files: driver/registry/<ID>.py is executed with CHECKS, WIP and PENDING in
# scope (one file per property so that checks can be developed independently of each other).
import glob as _glob
import os as _os
for _f in sorted(_glob.glob(_os.path.join(_os.path.dirname(_os.path.abspath(__file__)), "registry", "*.py"))):
    exec(compile(open(_f).read(), _f, "exec"), dict(CHECKS=CHECKS, WIP=WIP, PENDING=PENDING, E1_NOTE=E1_NOTE))
