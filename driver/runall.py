#!/usr/bin/env python3
"""runall.py [quick|thorough] [jobs] [ids...]: run every registered check, report one line each."""
import os, subprocess, sys, time
from concurrent.futures import ThreadPoolExecutor
sys.path.insert(0, os.path.dirname(os.path.abspath(__file__)))
from checks import CHECKS
tier = sys.argv[1] if len(sys.argv) > 1 else "quick"
jobs = int(sys.argv[2]) if len(sys.argv) > 2 else 4
ids = sys.argv[3:] or sorted(CHECKS)
def run(cid):
    t0 = time.time()
    r = subprocess.run(["/verif/check", cid, tier], capture_output=True, text=True)
    lines = [l for l in r.stdout.splitlines() if l.startswith(("OK", "VIOLATION", "INCONCLUSIVE"))]
    return cid, r.returncode, time.time() - t0, (lines[-1] if lines else r.stdout[-300:])[:200]
bad = 0
with ThreadPoolExecutor(max_workers=jobs) as ex:
    for cid, rc, dt, line in ex.map(run, ids):
        print("%s rc=%d %.0fs %s" % (cid, rc, dt, line), flush=True)
        bad += rc != 0
sys.exit(1 if bad else 0)
