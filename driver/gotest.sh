#!/bin/sh
# gotest.sh <go test args...> : run `go test` in the harness module with the /verif overlays applied
# (plus the overlay roots in $VERIF_EXTRA_OVERLAYS, colon separated). Example:
#   /verif/driver/gotest.sh -count=1 -timeout 300s -run TestSmoke ./simstorage/
export GOFLAGS=-mod=mod GOWORK=off GOPROXY=off GOSUMDB=off GOTOOLCHAIN=local CGO_ENABLED=1
D=$(mktemp -d /tmp/verif-gotest-XXXX)
python3 - "$D" <<'PY'
import sys
sys.path.insert(0, "/verif/driver")
import verifctl
print(verifctl.build_overlay(sys.argv[1], "/verif/harness"))
PY
cd /verif/harness && go test -vet=off -overlay "$D/overlay.json" "$@"; rc=$?
rm -rf "$D"; exit $rc
