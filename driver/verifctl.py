#!/usr/bin/env python3
"""Driver for the /verif checks.

  verifctl.py run <ID> <quick|thorough>
  verifctl.py replay <file>
  verifctl.py setup
  verifctl.py list

Exit codes: 0 property held on everything explored; 1 violation (a line
"VIOLATION property=<id> replay=<path>" is printed); 2 inconclusive (build
failure, timeout, worker death, vacuous run) - never a violation.
"""
import json
import os
import re
import shutil
import subprocess
import sys
import tempfile
import time
from concurrent.futures import ThreadPoolExecutor

VERIF = os.path.dirname(os.path.dirname(os.path.abspath(__file__)))
HARNESS = os.path.join(VERIF, "harness")
OVERLAYS = os.path.join(VERIF, "overlays")
REPLAYS = os.path.join(VERIF, "replays")
LOGS = os.path.join(VERIF, "logs")
EVIDENCE = os.path.join(VERIF, "evidence")
KNOWN = os.path.join(VERIF, "known_findings.json")
REPO = os.environ.get("VERIF_REPO", "/repo")
GOROOT_PKG = os.path.join(REPO, "code/go/0chain.net")
NCPU = os.cpu_count() or 4

sys.path.insert(0, os.path.dirname(os.path.abspath(__file__)))
from checks import CHECKS, WIP  # noqa: E402

if os.environ.get("VERIF_WIP"):
    CHECKS = dict(CHECKS, **WIP)  # unclaimed work in progress, for development only


def goenv():
    env = dict(os.environ)
    env.update({
        "GOFLAGS": "-mod=mod", "GOWORK": "off", "GOPROXY": "off", "GOSUMDB": "off",
        "GOTOOLCHAIN": "local", "CGO_ENABLED": "1",
        "VERIF_KNOWN_FINDINGS": KNOWN,
    })
    return env


def say(*a):
    print(*a, flush=True)


# ---------------------------------------------------------------------------
# overlay

def build_overlay(workdir, harness_dir):
    """Overlay JSON: mask every upstream *_test.go of packages we inject into
    (they need mockery mocks that are not checked in) and add our files."""
    replace = {}
    roots = [OVERLAYS] + [r for r in os.environ.get("VERIF_EXTRA_OVERLAYS", "").split(":") if r]
    for oroot in roots:
        for root, _dirs, files in os.walk(oroot):
            rel = os.path.relpath(root, oroot)
            gofiles = [f for f in files if f.endswith(".go")]
            if not gofiles:
                continue
            target = os.path.join(GOROOT_PKG, rel)
            if not os.path.isdir(target):
                continue
            for f in os.listdir(target):
                if f.endswith("_test.go"):
                    replace[os.path.join(target, f)] = ""
            for f in gofiles:
                replace[os.path.join(target, f)] = os.path.join(root, f)
    path = os.path.join(workdir, "overlay.json")
    with open(path, "w") as fh:
        json.dump({"Replace": replace}, fh)
    return path


def prepare_harness(workdir):
    """The harness module lives in /verif/harness; when VERIF_REPO points to a
    scratch copy (sensitivity probes) a copy of the module with the replace
    line rewritten is used instead."""
    if REPO == "/repo":
        gosum = os.path.join(HARNESS, "go.sum")
        if not os.path.exists(gosum):
            shutil.copy(os.path.join(GOROOT_PKG, "go.sum"), gosum)
        return HARNESS
    dst = os.path.join(workdir, "harness")
    shutil.copytree(HARNESS, dst, ignore=shutil.ignore_patterns("*.test"))
    gm = open(os.path.join(dst, "go.mod")).read()
    gm = gm.replace("=> /repo/code/go/0chain.net", "=> " + GOROOT_PKG)
    open(os.path.join(dst, "go.mod"), "w").write(gm)
    return dst


def repo_status():
    try:
        return subprocess.run(["git", "-C", REPO, "status", "--porcelain", "--ignored"],
                              capture_output=True, text=True, timeout=120).stdout
    except Exception:
        return ""


# ---------------------------------------------------------------------------
# running

def rapid_seed(verif_seed, part_idx, shard, attempt=0):
    s = (verif_seed * 1000003 + part_idx * 104729 + shard * 7919 + attempt * 15485863 + 20240917) % (2 ** 62)
    return s or 1


class Inconclusive(Exception):
    pass


def compile_part(part, harness_dir, overlay, workdir, idx, log):
    out = os.path.join(workdir, "p%d.test" % idx)
    cmd = ["go", "test", "-c", "-vet=off", "-overlay", overlay, "-o", out]
    if part.get("race"):
        cmd.append("-race")
    if part.get("tags"):
        cmd += ["-tags", part["tags"]]
    cmd.append(part["pkg"])
    t0 = time.time()
    r = subprocess.run(cmd, cwd=harness_dir, env=goenv(), capture_output=True, text=True)
    log.write("$ %s\n%s%s(compile %.1fs, rc=%d)\n" % (" ".join(cmd), r.stdout, r.stderr, time.time() - t0, r.returncode))
    if r.returncode != 0 or not os.path.exists(out):
        raise Inconclusive("build failed for %s:\n%s" % (part["pkg"], (r.stdout + r.stderr)[-3000:]))
    return out


def run_shard(binary, part, cid, tier, verif_seed, idx, shard, nshards, workdir, attempt, mult):
    sd = os.path.join(workdir, "p%d-s%d-a%d" % (idx, shard, attempt))
    os.makedirs(sd, exist_ok=True)
    stats = os.path.join(sd, "stats.json")
    env = goenv()
    env.update({
        "VERIF_STATS_OUT": stats, "VERIF_WORKDIR": os.path.join(sd, "wd"),
        "VERIF_SEED": str(verif_seed), "VERIF_TIER": tier, "VERIF_SHARD": str(shard),
        "VERIF_NSHARDS": str(nshards), "VERIF_PROPERTY": cid,
    })
    for k, v in (part.get("env") or {}).items():
        env[k] = str(v)
    for k, v in (part.get("env_" + tier) or {}).items():
        env[k] = str(v)
    if part.get("race"):
        env["GORACE"] = "halt_on_error=1 exitcode=66"
    # everything a test process creates with os.MkdirTemp / os.CreateTemp (simulator work dirs with their RocksDB state,
    # miner engine dirs, generated config dirs: ~150 MB per booted chain) lives under the run's work dir and goes with it
    env["TMPDIR"] = os.path.join(sd, "tmp")
    os.makedirs(env["TMPDIR"], exist_ok=True)
    checks = part.get(tier, part.get("quick", 100))
    checks = max(1, (checks * mult + nshards - 1) // nshards)
    timeout = part.get("timeout_" + tier, 900 if tier == "quick" else 3000)
    cmd = [binary, "-test.run", part["run"], "-test.count=1", "-test.timeout", "%ds" % timeout,
           "-rapid.checks", str(checks), "-rapid.seed", str(rapid_seed(verif_seed, idx, shard, attempt)),
           "-rapid.shrinktime", part.get("shrinktime", "20s")]
    if part.get("steps"):
        cmd += ["-rapid.steps", str(part["steps"])]
    if part.get("steps_" + tier):
        cmd[-1] = str(part["steps_" + tier])
    outpath = os.path.join(sd, "out.txt")
    t0 = time.time()
    with open(outpath, "w") as fh:
        try:
            r = subprocess.run(cmd, cwd=sd, env=env, stdout=fh, stderr=subprocess.STDOUT, timeout=timeout + 60)
            rc = r.returncode
        except subprocess.TimeoutExpired:
            rc = -9
    return dict(rc=rc, out=outpath, stats=stats, dir=sd, wall=time.time() - t0, cmd=cmd, shard=shard, checks=checks)


def crashed_in_code_under_test(text):
    """A Go panic that killed the test process, raised inside 0chain code (not in a harness or overlay test file) while a
    generated case was running: the code under test crashed on a generated input. The first frame of the panicking
    goroutine outside the Go runtime decides."""
    m = re.search(r"^panic: .*$", text, re.M)
    if not m or "[recovered]" in m.group(0):
        return False
    tail = text[m.end():]
    g = re.search(r"^goroutine \d+ \[running\]:$", tail, re.M)
    if not g:
        return False
    for f in re.findall(r"^\t(/\S+\.go):\d+", tail[g.end():], re.M):
        if "/src/runtime/" in f or "/go/src/" in f or "/pkg/mod/" in f:
            continue  # Go runtime / standard library / third-party modules: look at who called them
        base = os.path.basename(f)
        return "/code/go/0chain.net/" in f and not base.startswith("verif_") and not base.endswith("_test.go")
    return False


def classify(res, part):
    """-> 'pass' | 'violation' | 'inconclusive'"""
    if res["rc"] == 0:
        return "pass"
    text = open(res["out"], errors="replace").read()
    if res["rc"] == -9 or "panic: test timed out" in text:
        return "inconclusive"
    if "VERIF-HARNESS-ERROR" in text:
        return "inconclusive"
    if crashed_in_code_under_test(text):
        return "violation"
    if res["rc"] == 66 or "WARNING: DATA RACE" in text:
        return "violation"
    if "VERIF-VIOLATION" in text or "[rapid] failed" in text or "--- FAIL" in text:
        return "violation"
    if "fatal error: all goroutines are asleep" in text or "VERIF-HANG" in text:
        return "violation"
    return "inconclusive"


def collect_replay(res, cid, idx, verif_seed, tier="quick"):
    """Copy the rapid fail file (or, failing that, the output) to /verif/replays."""
    os.makedirs(REPLAYS, exist_ok=True)
    found = None
    for root, _d, files in os.walk(res["dir"]):
        for f in files:
            if f.endswith(".fail"):
                found = os.path.join(root, f)
    # the tier is part of the name: generated sizes depend on it, so a replay must run under the same tier
    base = "%s-p%d-seed%d-shard%d-%s" % (cid, idx, verif_seed, res["shard"], tier)
    if found:
        test = os.path.basename(os.path.dirname(found))
        dst = os.path.join(REPLAYS, "%s-%s.fail" % (base, re.sub(r"[^A-Za-z0-9_]", "_", test)))
        shutil.copy(found, dst)
        # keep the human-readable output beside it
        shutil.copy(res["out"], dst + ".txt")
        return dst
    dst = os.path.join(REPLAYS, base + ".log")
    shutil.copy(res["out"], dst)
    return dst


def merge_stats(cid, results):
    merged = dict(evaluations=0, nontrivial=0, fps=set(), classes={}, samples=[], known={}, assumptions=set(),
                  extra={}, rule="")
    for res in results:
        try:
            doc = json.load(open(res["stats"]))
        except Exception:
            continue
        for s in doc:
            if s["property"] != cid:
                continue
            merged["evaluations"] += s["evaluations"]
            merged["nontrivial"] += s["nontrivial"]
            merged["fps"].update(s.get("fingerprints") or [])
            for k, v in (s.get("classes") or {}).items():
                merged["classes"][k] = merged["classes"].get(k, 0) + v
            for smp in s.get("samples") or []:
                if len(merged["samples"]) < 6:
                    merged["samples"].append(smp)
            for k, v in (s.get("known") or {}).items():
                cur = merged["known"].setdefault(k, dict(what=v["what"], count=0))
                cur["count"] += v["count"]
            merged["assumptions"].update(s.get("assumptions") or [])
            for k, v in (s.get("extra") or {}).items():
                if isinstance(v, (int, float)) and isinstance(merged["extra"].get(k, 0), (int, float)):
                    merged["extra"][k] = merged["extra"].get(k, 0) + v
                else:
                    merged["extra"][k] = v
            if s.get("rule"):
                if merged["rule"] and s["rule"] not in merged["rule"]:
                    merged["rule"] += " || " + s["rule"]
                elif not merged["rule"]:
                    merged["rule"] = s["rule"]
    return merged


def open_findings(cid):
    try:
        doc = json.load(open(KNOWN))
    except Exception:
        return []
    return [f for f in doc.get("findings", []) if f.get("property") == cid and f.get("status") == "open"]


def write_evidence(cid, cfg, tier, verif_seed, merged, wall, violations, parts_info):
    os.makedirs(EVIDENCE, exist_ok=True)
    cov = dict(
        evaluations=merged["evaluations"],
        distinct_nontrivial=len(merged["fps"]),
        nontrivial_total=merged["nontrivial"],
        rule=merged["rule"] or cfg.get("rule", ""),
        samples=merged["samples"],
        classes=dict(sorted(merged["classes"].items())),
        known_finding_hits={k: v["count"] for k, v in merged["known"].items()},
        parts=parts_info,
    )
    cov.update(merged["extra"])
    doc = dict(property_id=cid, tier=tier, seed=verif_seed, level=cfg.get("level", "exploration"), coverage=cov,
               assumptions=sorted(merged["assumptions"]) + cfg.get("assumptions", []), wall_s=round(wall, 2),
               violations=violations)
    tmp = os.path.join(EVIDENCE, cid + ".json.tmp")
    with open(tmp, "w") as fh:
        json.dump(doc, fh, indent=1, sort_keys=False)
    os.replace(tmp, os.path.join(EVIDENCE, cid + ".json"))


def run_check(cid, tier, only_part=None, failfile=None):
    cfg = CHECKS[cid]
    verif_seed = int(os.environ.get("VERIF_SEED", "0") or 0)
    os.makedirs(LOGS, exist_ok=True)
    logpath = os.path.join(LOGS, "%s-%s.log" % (cid, tier))
    workdir = tempfile.mkdtemp(prefix="verif-%s-" % cid, dir=os.environ.get("VERIF_TMP", tempfile.gettempdir()))
    before = repo_status()
    t0 = time.time()
    violations = []
    all_results = []
    parts_info = []
    status = 0
    try:
        with open(logpath, "w") as log:
            harness_dir = prepare_harness(workdir)
            overlay = build_overlay(workdir, harness_dir)
            parts = cfg["parts"]
            # compile all parts (in parallel: different packages/flags)
            with ThreadPoolExecutor(max_workers=4) as ex:
                futs = [(i, ex.submit(compile_part, p, harness_dir, overlay, workdir, i, log))
                        for i, p in enumerate(parts) if only_part is None or i == only_part]
                bins = {}
                for i, f in futs:
                    bins[i] = f.result()
            for i, part in enumerate(parts):
                if i not in bins:
                    continue
                if part.get("thorough_only") and tier != "thorough" and failfile is None:
                    continue
                nshards = part.get("shards_" + tier, 1 if tier == "quick" else min(16, NCPU))
                if failfile:
                    nshards = 1
                attempt, mult = 0, 1
                while True:
                    with ThreadPoolExecutor(max_workers=nshards) as ex:
                        futs = [ex.submit(run_shard, bins[i], part, cid, tier, verif_seed, i, s, nshards, workdir,
                                          attempt, mult) for s in range(nshards)]
                        results = [f.result() for f in futs]
                    if failfile:
                        # replay: rerun just that file
                        pass
                    bad = False
                    for res in results:
                        kind = classify(res, part)
                        log.write("\n--- part %d shard %d rc=%d kind=%s wall=%.1fs\n$ %s\n" % (
                            i, res["shard"], res["rc"], kind, res["wall"], " ".join(res["cmd"])))
                        log.write(open(res["out"], errors="replace").read()[-20000:])
                        if kind == "violation":
                            path = collect_replay(res, cid, i, verif_seed, tier)
                            violations.append(path)
                            tail = open(res["out"], errors="replace").read()
                            m = re.findall(r"VERIF-VIOLATION[^\n]*", tail)
                            if not m and crashed_in_code_under_test(tail):
                                pm = re.search(r"^panic: .*$", tail, re.M)
                                say("  VERIF-VIOLATION property=%s key=crash :: the code under test panicked on a generated case and killed the process: %s" % (cid, pm.group(0)[:300]))
                                say(tail[pm.start():pm.start() + 1800])
                            else:
                                say("  " + (m[0][:600] if m else tail[-1500:]))
                        elif kind == "inconclusive":
                            bad = True
                            say("INCONCLUSIVE property=%s part=%d shard=%d rc=%d (see %s)" % (
                                cid, i, res["shard"], res["rc"], logpath))
                            say(open(res["out"], errors="replace").read()[-1500:])
                    all_results += results
                    if bad and not violations:
                        status = 2
                    # vacuity floor per part
                    floor = part.get("floor", 0)
                    if floor and not violations and status == 0:
                        m = merge_stats(cid, results)
                        if len(m["fps"]) < floor and attempt == 0:
                            attempt, mult = 1, 2
                            log.write("part %d below floor (%d < %d), retrying\n" % (i, len(m["fps"]), floor))
                            continue
                        if len(m["fps"]) < floor:
                            say("INCONCLUSIVE property=%s part=%d vacuous: %d distinct non-trivial cases < floor %d" % (
                                cid, i, len(m["fps"]), floor))
                            status = 2
                    break
                parts_info.append(dict(part=i, pkg=part["pkg"], run=part["run"], shards=nshards,
                                       race=bool(part.get("race")),
                                       checks_per_shard=results[0]["checks"] if results else 0,
                                       wall_s=round(max([r["wall"] for r in results] or [0]), 1)))
    except Inconclusive as e:
        say("INCONCLUSIVE property=%s: %s" % (cid, e))
        status = 2
    merged = merge_stats(cid, all_results)
    wall = time.time() - t0
    after = repo_status()
    if before != after:
        say("INCONCLUSIVE property=%s: the run changed files under %s:\n%s" % (cid, REPO, after))
        status = 2
    if status != 2 or merged["evaluations"] > 0:
        try:
            write_evidence(cid, cfg, tier, verif_seed, merged, wall, len(violations), parts_info)
        except Exception as e:  # pragma: no cover
            say("cannot write evidence: %s" % e)
    shutil.rmtree(workdir, ignore_errors=True)
    for f in open_findings(cid):
        hits = merged["known"].get(f["key"], {}).get("count", 0)
        say("KNOWN-FINDING: property=%s key=%s %s (reproduced %d times in this run)" % (cid, f["key"], f["what"], hits))
    if violations:
        for v in violations:
            say("VIOLATION property=%s replay=%s" % (cid, v))
        return 1
    if status == 0:
        total = len(merged["fps"])
        if total < max(2, cfg.get("floor", 2)):
            say("INCONCLUSIVE property=%s vacuous: %d distinct non-trivial cases" % (cid, total))
            return 2
        say("OK property=%s tier=%s seed=%d evaluations=%d distinct_nontrivial=%d wall=%.1fs" % (
            cid, tier, verif_seed, merged["evaluations"], total, wall))
    return status


def replay(path):
    name = os.path.basename(path)
    m = re.match(r"(C\d+)-p(\d+)-seed(\d+)-shard(\d+)(?:-(quick|thorough))?", name)
    if not m:
        say("cannot parse replay file name %s" % name)
        return 2
    cid, idx, seed, shard = m.group(1), int(m.group(2)), int(m.group(3)), int(m.group(4))
    tier = m.group(5) or os.environ.get("VERIF_REPLAY_TIER", "quick")
    cfg = CHECKS[cid]
    part = cfg["parts"][idx]
    workdir = tempfile.mkdtemp(prefix="verif-replay-")
    try:
        harness_dir = prepare_harness(workdir)
        overlay = build_overlay(workdir, harness_dir)
        with open(os.path.join(workdir, "log"), "w") as log:
            binary = compile_part(part, harness_dir, overlay, workdir, idx, log)
        env = goenv()
        env.update({"VERIF_WORKDIR": os.path.join(workdir, "wd"), "VERIF_SEED": str(seed), "VERIF_TIER": tier,
                    "VERIF_SHARD": str(shard), "VERIF_PROPERTY": cid})
        for k, v in (part.get("env") or {}).items():
            env[k] = str(v)
        for k, v in (part.get("env_" + tier) or {}).items():
            env[k] = str(v)
        if part.get("race"):
            env["GORACE"] = "halt_on_error=1 exitcode=66"
        env["TMPDIR"] = os.path.join(workdir, "tmp")
        os.makedirs(env["TMPDIR"], exist_ok=True)
        cmd = [binary, "-test.run", part["run"], "-test.count=1", "-test.timeout", "900s", "-test.v"]
        if path.endswith(".fail"):
            cmd += ["-rapid.failfile", os.path.abspath(path)]
        else:
            cmd += ["-rapid.seed", str(rapid_seed(seed, idx, shard)), "-rapid.checks", str(part.get("quick", 100))]
        r = subprocess.run(cmd, cwd=workdir, env=env, capture_output=True, text=True)
        sys.stdout.write(r.stdout[-8000:])
        sys.stdout.write(r.stderr[-4000:])
        if r.returncode != 0:
            say("VIOLATION property=%s replay=%s" % (cid, path))
            return 1
        say("OK replay passes: %s" % path)
        return 0
    except Inconclusive as e:
        say("INCONCLUSIVE %s" % e)
        return 2
    finally:
        shutil.rmtree(workdir, ignore_errors=True)


def setup():
    env = goenv()
    gosum = os.path.join(HARNESS, "go.sum")
    shutil.copy(os.path.join(GOROOT_PKG, "go.sum"), gosum)
    # warm the test-variant build cache (cgo rocksdb, bls) with one cheap check binary per flavour
    with tempfile.TemporaryDirectory() as wd:
        overlay = build_overlay(wd, HARNESS)
        # the harness libraries (sim*, vstate) use the read-only Verif* shims that
        # only exist through the overlay, so everything is built with it
        r = subprocess.run(["go", "build", "-overlay", overlay, "0chain.net/...", "./..."], cwd=HARNESS, env=env)
        if r.returncode != 0:
            return r.returncode
        pkgs = sorted({p["pkg"] for c in CHECKS.values() for p in c["parts"] if not p.get("race")})
        r = subprocess.run(["go", "test", "-vet=off", "-overlay", overlay, "-run", "^$", "-count=1"] + pkgs,
                           cwd=HARNESS, env=env)
        racepkgs = sorted({p["pkg"] for c in CHECKS.values() for p in c["parts"] if p.get("race")})
        if racepkgs and r.returncode == 0:
            r = subprocess.run(["go", "test", "-race", "-vet=off", "-overlay", overlay, "-run", "^$", "-count=1"]
                               + racepkgs, cwd=HARNESS, env=env)
    return r.returncode


def main(argv):
    if len(argv) >= 2 and argv[1] == "setup":
        return setup()
    if len(argv) >= 2 and argv[1] == "list":
        for k in sorted(CHECKS):
            say(k)
        return 0
    if len(argv) >= 3 and argv[1] in ("replay", "--replay"):
        return replay(argv[2])
    if len(argv) >= 4 and argv[1] == "run":
        cid, tier = argv[2], argv[3]
    elif len(argv) >= 3:
        cid, tier = argv[1], argv[2]
    else:
        say(__doc__)
        return 2
    if cid not in CHECKS or tier not in ("quick", "thorough"):
        say("unknown check or tier: %s %s" % (cid, tier))
        return 2
    return run_check(cid, tier)


if __name__ == "__main__":
    sys.exit(main(sys.argv))
