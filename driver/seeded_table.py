#!/usr/bin/env python3
"""Prints the markdown table of /verif/seeded (DESIGN.md section 10.11 is generated with it)."""
import json, os, re
root = '/verif/seeded'
rows = []
for name in sorted(os.listdir(root)):
    mp = os.path.join(root, name, 'meta.json')
    if not os.path.exists(mp):
        continue
    m = json.load(open(mp))
    needs = m.get('needs_to_manifest') or m.get('needs') or m.get('what_it_needs') or ''
    what = m.get('summary') or m.get('breaks') or m.get('what') or ''
    found = m.get('found_by') or m.get('ran') or ''
    indep = 'independent' if 'independent sub-agent' in (m.get('origin') or '') else 'own'
    clean = lambda s: re.sub(r'\s+', ' ', str(s)).replace('|', '/')[:230]
    rows.append('| %s | %s | %s | %s | %s |' % (name, indep, clean(what), clean(needs), clean(found)))
print('| change | origin | what it does | what it needs to manifest | found by |')
print('|---|---|---|---|---|')
print('\n'.join(rows))
