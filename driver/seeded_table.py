#!/usr/bin/env python3
"""Prints the markdown table of /verif/seeded (DESIGN.md section 10.11 is generated with it). The last column is the
verdict of the latest re-run of all kept changes (wip/seeded_regression.py -> wip/seeded-regression.log)."""
import json, os, re
root = '/verif/seeded'
rerun = {}
log = '/verif/wip/seeded-regression.log'
if os.path.exists(log):
    for l in open(log):
        f = l.split()
        if len(f) >= 3:
            rerun[f[0]] = (f[2].lower() + (' ' + f[1].replace('by=', '') if len(f) > 1 else '') + (' (' + f[3] + ')' if len(f) > 3 else ''))
rows = []
for name in sorted(os.listdir(root)):
    mp = os.path.join(root, name, 'meta.json')
    if not os.path.exists(mp):
        continue
    m = json.load(open(mp))
    needs = m.get('needs_to_manifest') or m.get('needs') or m.get('what_it_needs') or ''
    what = m.get('summary') or m.get('breaks') or m.get('what') or ''
    found = m.get('found_by') or m.get('ran') or (m.get('our_checks') or {}).get('detected_by') or ''
    indep = 'independent' if 'independent sub-agent' in (m.get('origin') or '') else 'own'
    clean = lambda s: re.sub(r'\s+', ' ', str(s)).replace('|', '/')[:230]
    rows.append('| %s | %s | %s | %s | %s | %s |' % (name, indep, clean(what), clean(needs), clean(found), rerun.get(name, '')))
print('| change | origin | what it does | what it needs to manifest | found by | latest re-run (quick) |')
print('|---|---|---|---|---|---|')
print('\n'.join(rows))
