SCHK = "verifharness/checks/storagechk"
CHECKS["C15"] = dict(
    level="exploration", engine="E1",
    technique="stateful (model-based) property-based testing on the full-chain simulator: generated read-marker histories vs a per-(blobber, reader, allocation) counter model and an exact rational charge oracle",
    level_text="Generated histories of read markers (replayed, older, forward, huge and non-positive counters; signed by the reader, another key, or altered after signing; several readers, blobbers and allocations sharing each other; timestamps around start and expiry) interleaved with pool locks / unlocks and allocation life-cycle operations run on the real chain; after every transaction each read pool may only have fallen through a successful redeem of that client's marker by floor(price x new blocks / 16384) (stated float tolerance) or the client's own unlock; accepted markers must be signed by the reader, not move the counter back, and be recorded; refused ones change nothing.",
    level_note=E1_NOTE,
    parts=[dict(pkg=SCHK, run="^TestC15_ReadMarkersChargeOnce$", quick=150, thorough=15000, floor=5, timeout_quick=1500)],
)
