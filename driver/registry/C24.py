SCHK = "verifharness/checks/storagechk"
CHECKS["C24"] = dict(
    level="exploration", engine="E1",
    technique="stateful (model-based) property-based testing on the full-chain simulator: generated free-storage markers (forged, replayed, over-limit, wrong recipient, rotated keys) vs a model of redeemed nonces and totals per assigner",
    level_text="Generated histories register and re-register free-storage assigners (limits, key rotation) and redeem generated markers across two assigners on the real chain; an accepted request must carry a signature of the currently registered key over the marker as sent, come from its recipient, use a nonce never granted before, respect the individual and total limits read from the state, debit the contract owner's wallet by exactly the marker's tokens, create the recipient's allocation and record nonce and total; a refused request leaves record and balances untouched.",
    level_note=E1_NOTE + " The shipped free-allocation read price range (max 0) admits no blobber of the harness world, so the base state raises it to 1 through the owner's update_settings + commit_settings_changes.",
    parts=[dict(pkg=SCHK, run="^TestC24_FreeStorageGrants$", quick=150, thorough=15000, floor=5, timeout_quick=1500)],
)
