SCHK = "verifharness/checks/storagechk"
CHECKS["C23"] = dict(
    level="exploration", engine="E1",
    technique="stateful property-based testing on the full-chain simulator: generated kill / shutdown attempts by every kind of caller, repeated and followed by reward-bearing operations, with a before/after oracle over all provider records",
    level_text="Generated storage histories send kill and shutdown transactions for blobbers and validators from the contract owner, delegate wallets, provider wallets and strangers, also repeatedly, with allocations, data and extra delegates present, followed by challenges, read markers, block rewards and closes; an authorised call on a live provider must mark that provider's own stake pool dead and slash every delegate once by the configured fraction; every other call must change nothing; no stake pool node may appear under a non-provider id; other providers' records stay untouched; a dead provider's rewards never grow again.",
    level_note=E1_NOTE,
    parts=[dict(pkg=SCHK, run="^TestC23_KillDisablesExactlyThatProvider$", quick=150, thorough=15000, floor=5, timeout_quick=1500)],
)

# second part: kill_miner / kill_sharder through the miner contract (no slashing there)
CHECKS["C23"]["parts"].append(dict(pkg="verifharness/checks/minerchk", run="^TestC23_KillMinerSharder$", quick=150, thorough=15000, floor=3))
CHECKS["C23"]["level_text"] += " A second part sends kill_miner / kill_sharder from the contract owner, delegate wallets and strangers on registered miners and sharders: only the owner's call may succeed, it marks the node and its stake pool dead without changing a delegate balance (the miner contract does not slash), other nodes stay untouched, and later fee payments never raise a dead node's unpaid rewards."
