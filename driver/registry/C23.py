SCHK = "verifharness/checks/storagechk"
CHECKS["C23"] = dict(
    level="exploration", engine="E1",
    technique="stateful property-based testing on the full-chain simulator: generated kill / shutdown attempts by every kind of caller, repeated and followed by reward-bearing operations, with a before/after oracle over all provider records",
    level_text="Generated storage histories send kill and shutdown transactions for blobbers and validators from the contract owner, delegate wallets, provider wallets and strangers, also repeatedly, with allocations, data and extra delegates present, followed by challenges, read markers, block rewards and closes; an authorised call on a live provider must mark that provider's own stake pool dead and slash every delegate once by the configured fraction; every other call must change nothing; no stake pool node may appear under a non-provider id; other providers' records stay untouched; a dead provider's rewards never grow again.",
    level_note=E1_NOTE,
    parts=[dict(pkg=SCHK, run="^TestC23_KillDisablesExactlyThatProvider$", quick=150, thorough=15000, floor=5, timeout_quick=1500)],
)
