# Additions of the fourth round (after the fifth and sixth wave of independent changes); appended to the texts of
# the checks they extend.
def _add(cid, text, note=None):
    CHECKS[cid]["level_text"] += " " + text
    if note:
        CHECKS[cid]["level_note"] = (CHECKS[cid].get("level_note", "") + " " + note).strip()

_add("C31", "Fault: for a share of the proposals all four ticket-verification slots of the node are taken by other verifications while the proposal is processed, so the verification of the tickets it carries runs out of its one-second budget.",
     "The busy slots are taken through a shim in package chain (overlays/chaincore/chain/verif_export_c31.go); it adds no behaviour to a protocol path.")
_add("C45", "The block cost limit is a drawn chain setting (shipped 10000, or 3000-4000, just above the summed cost of all built-in transactions) and a share of the pools holds ten cheap transactions per sender in nonce order, so that blocks are filled to within one cheap transaction of the limit, also in settings-commit rounds.")
_add("C12", "Scripts: an allocation that has lived for a good part of its time unit is extended and then filled with markers the client dated at the allocation's start (priced for more than one time unit: the upload takes the whole write pool); single filling markers dated anywhere inside, at the ends of and just before the allocation's life.")
_add("C09", "The extend-then-backdated-markers script of C12 is part of the operation mix.")
_add("C47", "Before the tampering step the genuine signature may go through the node's batched check (first or last of a batch with another valid signature, once or twice) and must verify afterwards exactly as before.")
_add("C29", "Blocks travel with 0-3 genuine verification tickets of other miners and 0-2 tickets of the previous block (not part of the contents); the hash field is also re-spelled (upper-case hex of the same bytes).")
_add("C30", "A third of the cases present the tampered transaction inside a block, as the miner's ValidateTransactions does (decode, ComputeProperties, ValidateWrtTimeForBlock with the signature check left to the aggregate scheme, batched signature check over 1-3 transactions in generated batch sizes).")
_add("C34", "Up to two further parties take part in the share exchange but are dropped before the keys are aggregated (DeleteFromSet); aggregation runs once, again after the set shrank, or twice.")
_add("C35", "In the ranking part the second node reaches the seed through a generated earlier life of the round (other seeds, restarts, a seed forced by a notarized block).")
_add("C37", "Notarized blocks come in pairs per rank (a block generated again after a timeout has the rank of the one it replaces).")
CHECKS["C30"]["technique"] = "property-based testing of the two acceptance pipelines (put by a client; inside a block with batched signature check) with generated single-field tamperings (hash kept or recomputed) and generated client-cache states"
CHECKS["C31"]["technique"] += "; generated faults (expired processing context, verification capacity exhausted)"
