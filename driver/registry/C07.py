# C07 - the state cache never disagrees with the state trie (builder b07)
_CCHK = "verifharness/checks/cachechk"
CHECKS["C07"] = dict(
    level="exploration", engine="E1-lite + E1",
    technique="stateful (model-based) property-based testing with a differential oracle: rapid state machine over the real StateContext / MPT / state cache stack on a tree of blocks, every cached read compared with an uncached trie read at the same root; generated transaction histories through Chain.UpdateState with a cache audit after every transaction; deep in-place mutation of every returned object",
    level_text="Part 1: generated histories of block opens on any committed block (siblings, forks, late block hash of a generator), transaction begin / commit / discard, get / insert / delete of all seven cacheable entity types (reflectively generated values incl. versioned wrappers and magic blocks) and two non-cacheable controls, deep scrambling of every object a read returned or an insert was given, block commit / abandon and REST-style query reads run on the real cstate.StateContext over the real MPT and the real StateCache -> BlockCache -> TransactionCache stack wired as chain.updateState, block.ComputeState, the generator and the REST handlers wire them; every read through the stack must have the outcome, the canonical encoding and the object structure of a read from a trie opened with an empty cache on the same root. Part 2: generated transaction histories (settings updates, add_validator calls that write partitions and then fail, node registration, fee payments, garbage, nonce games) run through Chain.UpdateState on the booted chain; after every applied, failed or rejected transaction every key held anywhere in the cache stack is read as the next transaction would read it, compared with the uncached block state, scrambled and read again.",
    level_note="Exploration of histories: finds a divergence in the explored histories, proves nothing about others. One key holds one entity type; one transaction open at a time (the chain's state mutex); cache capacity effects (200 blocks per key, 2000 block hashes) are outside the generated sizes. Two classes are excluded by construction while they are listed as open findings: reads that can reach the global cache while another branch holds an entry for the key (stale-value-after-ancestor-walk; part 2 then runs a single line of blocks without REST-style reads) and magic-block pools with nodes inside GlobalNode (node-pool-lost-in-cached-copy); a fixed probe per run reports whether each still reproduces.",
    parts=[
        dict(pkg=_CCHK, run="^TestC07_CacheVsTrie$", quick=3000, thorough=160000, steps=60, steps_thorough=80, floor=50,
             timeout_quick=600, timeout_thorough=2400),
        dict(pkg=_CCHK, run="^TestC07_ChainPath$", quick=400, thorough=16000, floor=20,
             timeout_quick=900, timeout_thorough=2400),
    ],
    assumptions=[
        "one state key always holds one entity type (keys are derived per type in the contracts)",
        "read destinations are fresh objects built the way the contracts build them",
        "the uncached reference is the repository's own MPT opened with an empty cache on the same node DB and root",
    ],
)
