SCHK = "verifharness/checks/storagechk"
_STORAGE_TECH = "stateful (model-based) property-based testing on the full-chain simulator: generated storage contract histories with an oracle over contract state and balances after every transaction"
CHECKS["C14"] = dict(
    level="exploration", engine="E1", technique=_STORAGE_TECH,
    level_text="Generated storage histories biased to closing allocations (cancel / finalize by owner, blobber, stranger; before and after expiry; repeated; followed by operations naming the closed allocation) run on the real chain; every successful close is checked for entitlement, exact refund to the owner (what leaves the contract wallet is what the owner receives), the refund's lower bound (write pool minus the capped cancellation charge), the upper bounds on what blobbers can earn (challenge pool plus capped charge), removal of allocation and challenge pool nodes; every later transaction naming a closed allocation must fail and move nothing.",
    level_note=E1_NOTE + " The cancellation charge bound is cancellation_charge x sum of offers, the contract's own definition.",
    parts=[dict(pkg=SCHK, run="^TestC14_CloseRefundsOnce$", quick=150, thorough=15000, floor=5, timeout_quick=1500)],
)
