# C45 (engine E3, in-package overlay test in package miner; built by b45)
_E3_NOTE = ("Engine E3: a real miner chain booted in-process from the shipped configuration (owner ids replaced by harness keys, contract timeout raised "
            "to 10 min, block.proposal.max_wait_time raised from 180 ms to 60 s so that the wall-clock cut-off of the pool iteration does not decide "
            "an outcome), real RocksDB state DB, real contracts, miniredis as the transaction pool, a genesis magic block of 5 derived miners and 2 "
            "derived sharders whose keys the harness owns (it switches node.Self between miners). N2N sends go to a closed local port and fail at once. "
            "Transaction timestamps are real time; no oracle reads the clock.")
CHECKS["C45"] = dict(
    level="exploration", engine="E3",
    technique="property-based differential testing: the real block generator against the real block verifier and an independent replay, over generated transaction pools, previous states and round numbers, plus structural invariants of the generated block",
    level_text="Generated miniredis pools (per sender lists of nonce offset / kind / fee rank: sends, faucet pours, insufficient fee, overdraw, expensive and cheap failing contract calls, client calls of built-in function names, unknown functions, data, stale time, bad signature; duplicate nonces, future nonces that turn current inside the block, chains of expensive calls at the block cost limit, re-put duplicates, leftovers of the previous round) over generated previous states and round numbers that hit the built-in transaction schedules are given to the real GenerateRoundBlock; the block is encoded as on the wire, decoded into a fresh object and verified with the real VerifyRoundBlock as another miner; roots, change count, outputs and statuses must agree between generator, verifier and an isolated replay, and the block must have no hash twice, consecutive nonces per sender, cost <= max block cost and each built-in function at most once.",
    level_note=_E3_NOTE + " Generator and verifier share one process (same state DB = 'the same previous state', same global state cache, read through the parent hash only). Previous states are genesis plus 0-4 harness-executed transactions plus up to 2 generated blocks (3 in the thorough tier).",
    parts=[dict(pkg="0chain.net/miner", run="^TestC45_GenerateVerify$", quick=400, thorough=8000, floor=20,
                timeout_quick=900, timeout_thorough=3000)],
)
