# second part of C04: the storage contract world (third-party extensions with tokens, free-storage grants, fork variants)
CHECKS["C04"]["parts"].append(dict(pkg="verifharness/checks/storagechk", run="^TestC04_StorageDebitsOnlyAuthorised$", quick=120, thorough=12000, floor=3, timeout_quick=1500))
CHECKS["C04"]["level_text"] += " A second part runs the same per-transaction balance-delta oracle over generated storage contract histories (real providers, allocations extended by third parties with tokens attached, free-storage grants with valid / forged / replayed markers, hard-fork variants)."
