SCHK = "verifharness/checks/storagechk"
CHECKS["C09"] = dict(
    level="exploration", engine="E1",
    technique="stateful property-based testing on the full-chain simulator: generated contract histories with a per-transaction ledger invariant (growth of recorded liabilities <= growth of the contract wallet + newly accrued reward)",
    level_text="Generated storage histories (allocations incl. free-storage grants, markers, challenges, updates, blobber replacement incl. killed blobbers, kills, stake lock / unlock / collect, read markers, block rewards, closes) run on the real chain; after every applied transaction the sum of everything the storage contract records as owed (delegate stakes, unpaid rewards, write, challenge and read pools) may have grown by at most what the contract's wallet gained plus the block reward newly accrued by blobber_block_rewards.",
    level_note=E1_NOTE + " The ledger enumerates the pools of every provider, allocation and client the history created.",
    parts=[dict(pkg=SCHK, run="^TestC09_StorageLiabilitiesBacked$", quick=150, thorough=15000, floor=5, timeout_quick=1500)],
)
