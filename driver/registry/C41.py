CHECKS["C41"] = dict(
    level="exploration", engine="E5-lite",
    technique="property-based testing of the running LFB-ticket worker: generated adversarial ticket streams through the real HTTP handler function, interleaved (sequentially and from concurrent goroutines) with local broadcasts, miner kicks and magic-block changes; invariant oracle on every reported latest ticket with harness-owned keys",
    level_text="Per case a fresh Chain with generated magic blocks and the real StartLFBTicketWorker goroutine; generated bursts of tickets (any round; signer a sharder of the magic block in force, a sharder outside it, a miner, a registered node in no magic block, self, an unknown or malformed id; signature valid, empty, garbage, by another key, genuine over another round or hash) go through LFBTicketHandler, local blocks through BroadcastLFBTicket, unsigned kicks through AddReceivedLFBTicket. After each burst the reported latest ticket must not have a lower round than before, and a newly adopted received ticket must equal a ticket that was sent, name a sharder of the magic block in force and verify under that sharder's key. Exploration: says nothing about streams and interleavings that were not generated.",
    level_note="The harness judges membership and signatures from its own key and pool records; 'current magic block' is Chain.GetCurrentMagicBlock() when the ticket is handed in. Interleavings inside a burst are sampled by the Go scheduler, not enumerated.",
    parts=[
        dict(pkg="0chain.net/chaincore/chain", run="^TestC41_LFBTickets$", quick=1200, thorough=40000, floor=50,
             timeout_quick=600, timeout_thorough=1500),
    ],
    assumptions=["every generated node is inactive, so broadcasts never reach the network layer",
                 "the property's 'adopts' is observed through GetLatestLFBTicket after the worker queues are drained"],
)
