# C08 - state entities serialize losslessly and canonically (builder b07)
_CDC = "verifharness/checks/codecchk"
CHECKS["C08"] = dict(
    level="exploration", engine="E2 + source scan",
    technique="property-based round-trip testing with a reflective value generator over every codec type of the working tree (source scan at check time), metamorphic test on map insertion order, migration round trips for versioned entities",
    level_text="The registry of types is generated from the sources (every named type with MarshalMsg and UnmarshalMsg, at least one of them its own; 148 types in 22 packages at this commit) and compared with a fresh source scan at check time (types_covered / types_found in the evidence; a type missing from the registry stops the run as inconclusive). Per case one type and one reflectively generated value (all exported and unexported fields, nil / empty / filled containers, boundary and maximal numbers, odd strings, versioned wrappers with an entity of a drawn registered version): dec(enc(x)) must succeed and consume all bytes, enc(dec(enc(x))) == enc(x), dec(enc(x)) must equal x on every exported field not declared transient, encoding must be repeatable and independent of map insertion order. Versioned part: entities of version n are stored, read back (must stay version n), migrated with Wrapper.Update to n+1 (every field common to both version structs and Wrapper.Base() must be unchanged), stored and read again, and bytes naming an unregistered version must be refused.",
    level_note="Exploration over generated values: finds a lossy or non-canonical codec for the explored values, proves nothing about others. The domain is a superset of the stored entity types (all codec types, including REST response shapes); two dead types are exempted with the proof re-checked against the sources at every run (tokenpool.ZcnLockingPool cannot be built, stakepool.UserPoolStat has an empty generated codec). Fields tagged msg:\"-\" and unexported fields are what the codec declares transient and are not compared; State.TxnHash is derived from TxnHashBytes. No decoding of arbitrary (corrupted) bytes: the statement is about values the contracts store. While the node.Pool finding is open, pools are generated as empty miner pools only; a fixed probe reports whether it still reproduces.",
    parts=[
        dict(pkg=_CDC, run="^TestC08_RoundTrip$", quick=40000, thorough=3200000, floor=2000, timeout_quick=600, timeout_thorough=2400),
        dict(pkg=_CDC, run="^TestC08_VersionedEntities$", quick=8000, thorough=640000, floor=500, timeout_quick=600, timeout_thorough=2400),
    ],
    assumptions=[
        "a stored versioned wrapper always carries an entity of a registered version",
        "stored node pools hold nodes with valid public keys; State carries a 32-byte transaction hash; container elements are not nil",
    ],
)
