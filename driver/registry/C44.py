_C44_NOTE = ("The race detector is happens-before based: it reports an unsynchronised pair whenever both accesses execute "
             "in one run, whatever the timing, so what is generated is which operations run concurrently on which object. "
             "A quiet run says nothing about operation pairs or object states that were not generated.")
CHECKS["C44"] = dict(
    level="exploration", engine="E5",
    technique="generated concurrent programs (k goroutines x short operation lists over one shared object, drawn with rapid) executed under the Go race detector with a watchdog; operations are the calls miner/sharder workers and handlers make (roots documented per operation); differential cross-check of ValidateTransactions' verdict",
    level_text="Five parts, each its own -race test binary run with GORACE=halt_on_error: (a) one round.Round (notarized/proposed block lists, VRF shares, seeds and ranks, phase, finalizing state, timeouts, restart, clone), (b) one published block.Block (ticket add/merge/read, notarization flag, previous-block link, state status / block state / verification status, client state, unique extensions, msgpack encoding, clone), (c) miner ValidateTransactions over generated blocks with >= 2 batches, invalid transactions of five kinds at drawn positions, the current round moving on meanwhile, 1..3 blocks validated concurrently, (d) one chain.Chain: block map (AddBlock / AddRoundBlock / AddNotarizedBlockToRound / GetBlock(Clone) / SetBlock / delete dead blocks / PruneChain), round map (AddRound / GetRound / GetRoundClone / DeleteRoundsBelow), current round, latest deterministic block, (e) one miner.Round (verification channel, collected tickets, own share/ticket, cancel functions, restart). Programs: node type (miner or sharder, which selects the admissible operations), 0..4 sequential set-up operations, 2..4 goroutines x 1..6 operations, repeated on fresh objects; block objects are private to a goroutine until published through the chain or round, as in the real code. " + _C44_NOTE,
    level_note="Operations that only run before an object is shared (SetRoundRandomSeed, HashBlock ...) and dead code (Round.UpdateNotarizedBlock, SetFinalized) are not generated. Direct reads/writes of exported struct fields from other packages are outside the property's quantifier (exported operations) and are not generated, except walking the slices the getters return. Open known findings exclude the named operation pairs by construction.",
    parts=[
        dict(pkg="0chain.net/chaincore/round", run="^TestC44_Round$", race=True, quick=1500, thorough=64000, floor=50,
             timeout_quick=600, timeout_thorough=1500),
        dict(pkg="0chain.net/chaincore/block", run="^TestC44_Block$", race=True, quick=1500, thorough=64000, floor=50,
             timeout_quick=600, timeout_thorough=1500),
        dict(pkg="0chain.net/miner", run="^TestC44_ValidateTransactions$", race=True, quick=400, thorough=16000, floor=20,
             timeout_quick=600, timeout_thorough=1500),
        dict(pkg="0chain.net/miner", run="^TestC44_MinerRound$", race=True, quick=1500, thorough=48000, floor=20,
             timeout_quick=600, timeout_thorough=1500),
        dict(pkg="0chain.net/chaincore/chain", run="^TestC44_ChainMaps$", race=True, quick=350, thorough=8000, floor=30,
             timeout_quick=900, timeout_thorough=2400),
    ],
    assumptions=["a block object is private to the goroutine that received or built it until it is published through the chain's block map or a round (copies of the same block arriving on different paths are different objects)",
                 "operations issued only by miners never run concurrently with operations issued only by sharders on one object",
                 "interleavings are sampled by the Go scheduler; the detector needs both accesses of a pair to execute, not a particular timing"],
)

# the duplicate-built-in bookkeeping of ValidateTransactions is shared by the batch goroutines: the C22 block generator
# (built-in calls at drawn positions across batches) is run once more under the race detector for C44
CHECKS["C44"]["parts"].append(dict(pkg="0chain.net/miner", run="^TestC22_OneBuiltinPerBlock$", race=True, quick=300, thorough=20000))
