SCHK = "verifharness/checks/storagechk"
CHECKS["C11"] = dict(
    level="exploration", engine="E1",
    technique="stateful property-based testing on the full-chain simulator: generated lock / unlock / collect / reward interleavings with an exact per-pool and per-balance delta oracle",
    level_text="Generated interleavings of stake_pool_lock, stake_pool_unlock, collect_reward and reward-accruing operations by several clients and delegate wallets on blobber and validator stake pools run on the real chain; every successful lock, unlock and collect is checked for the exact balance movements (staker, contract wallet), the exact change of the staker's own delegate pool, the configured stake bounds and delegate limit, removal of an unlocked pool, and that no other delegate pool or provider changes; refused calls must change nothing.",
    level_note=E1_NOTE,
    parts=[dict(pkg=SCHK, run="^TestC11_StakeLockUnlockExact$", quick=150, thorough=15000, floor=3, timeout_quick=1500)],
)

# second part: miner and sharder stake pools through the miner contract
CHECKS["C11"]["parts"].append(dict(pkg="verifharness/checks/minerchk", run="^TestC11_MinerSharderPools$", quick=150, thorough=15000, floor=3))
CHECKS["C11"]["level_text"] += " A second part drives addToDelegatePool / deleteFromDelegatePool / collect_reward on all miners and sharders (registered through real transactions) interleaved with fee payments that accrue rewards, node settings updates (delegate limit) and kills, with the same exact per-pool and per-balance oracle."
