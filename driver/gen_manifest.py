#!/usr/bin/env python3
"""Regenerates /verif/MANIFEST.json from driver/checks.py (run after editing the registry)."""
import json
import os
import sys

sys.path.insert(0, os.path.dirname(os.path.abspath(__file__)))
from checks import CHECKS, PENDING  # noqa: E402

VERIF = os.path.dirname(os.path.dirname(os.path.abspath(__file__)))
props = [json.loads(l) for l in open(os.path.join(VERIF, "properties.jsonl"))]

checks = []
for p in props:
    cid = p["id"]
    if cid not in CHECKS:
        continue
    c = CHECKS[cid]
    entry = {
        "property_id": cid,
        "quick_cmd": "./check %s quick" % cid,
        "thorough_cmd": "./check %s thorough" % cid,
        "evidence_file": "/verif/evidence/%s.json" % cid,
        "replay_cmd_template": "./check --replay {path}",
        "engine": c.get("engine", "E2"),
        "level_claimed": {
            "category": c.get("level", "exploration"),
            "text": c["level_text"],
            "design_ref": "DESIGN.md section 4, " + cid,
        },
        "level_note": c["level_note"],
        "technique": c["technique"],
    }
    checks.append(entry)

na = []
for p in props:
    if p["id"] not in CHECKS:
        na.append({"property_id": p["id"], "reason": PENDING.get(p["id"], "check not built yet in this session (designed in DESIGN.md section 4); not claimed")})

manifest = {
    "version": 1,
    "setup_cmd": "./check setup",
    "hooks": {
        "guard": "verif",
        "enable": "no source hooks are needed: checks inject in-package tests and read-only shim files with `go test -overlay` from /verif/overlays into /repo's current working tree (build tag `verif` is reserved)",
        "baseline_off_cmd": "cd /repo/code/go/0chain.net && go test -json -vet=off -count=1 -timeout 25m ./...",
        "source_commits": [],
        "add_only": True,
    },
    "engines": [
        {"name": "E1", "path": "/verif/harness/sim", "kind_free_text": "full-chain transaction-history simulator (real Chain.UpdateState over the real MPT and contracts), rapid state machines", "serves_properties": sorted(k for k, v in CHECKS.items() if v.get("engine") == "E1")},
        {"name": "E2", "path": "/verif/overlays", "kind_free_text": "in-package rapid property tests injected with go test -overlay, reference-model / metamorphic oracles", "serves_properties": sorted(k for k, v in CHECKS.items() if v.get("engine", "E2") == "E2")},
        {"name": "E3", "path": "/verif/overlays/miner", "kind_free_text": "in-process miner engine (miniredis txn pool) for block generation/verification/notarization", "serves_properties": sorted(k for k, v in CHECKS.items() if v.get("engine") == "E3")},
        {"name": "E4", "path": "/verif/overlays", "kind_free_text": "persistence and generated-fault engine (real files, real RocksDB)", "serves_properties": sorted(k for k, v in CHECKS.items() if v.get("engine") == "E4")},
        {"name": "E5", "path": "/verif/overlays", "kind_free_text": "generated concurrent programs under the race detector with a watchdog", "serves_properties": sorted(k for k, v in CHECKS.items() if v.get("engine") == "E5")},
        {"name": "E6", "path": "/verif/overlays/smartcontract/dbs/event", "kind_free_text": "event pipeline on in-memory sqlite", "serves_properties": sorted(k for k, v in CHECKS.items() if v.get("engine") == "E6")},
    ],
    "checks": checks,
    "not_applicable": na,
    "notes": "All checks are property-based tests (pgregory.net/rapid v1.3.0, seeds derived from VERIF_SEED; no native go-fuzz campaign is registered). setup_cmd builds the harness with the go test overlay (the harness libraries use read-only shims that exist only through it). Driver: /verif/driver/verifctl.py via ./check. Exit 0 held / 1 VIOLATION / 2 INCONCLUSIVE (build failure, timeout, vacuous run). Known findings: /verif/known_findings.json. Regression inputs of repaired defects: /verif/regressions. DESIGN.md section 10 describes what was built and corrected.",
}
json.dump(manifest, open(os.path.join(VERIF, "MANIFEST.json"), "w"), indent=1)
print("checks: %d, not claimed: %d" % (len(checks), len(na)))
